#!/bin/sh
# Offline build of the monitoring harness against /repo's working tree (hooks on): the plain binary and the two typed flavours.
set -e
cd "$(dirname "$0")"
export CARGO_NET_OFFLINE=true
[ -f harness/Cargo.lock ] || cp /repo/Cargo.lock harness/Cargo.lock
(cd harness && CARGO_TARGET_DIR="$(pwd)/../target" cargo build --release --offline) &
(cd harness && CARGO_TARGET_DIR="$(pwd)/../target-typed" cargo build --release --offline --features typed) &
(cd harness && CARGO_TARGET_DIR="$(pwd)/../target-big" cargo build --release --offline --features big) &
wait
[ -x target/release/cvh ] && [ -x target-typed/release/cvh ] && [ -x target-big/release/cvh ]
echo "setup ok"
