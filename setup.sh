#!/bin/sh
# Offline build of the monitoring harness against /repo's working tree (hooks on).
set -e
cd "$(dirname "$0")"
export CARGO_NET_OFFLINE=true
export CARGO_TARGET_DIR="$(pwd)/target"
[ -f harness/Cargo.lock ] || cp /repo/Cargo.lock harness/Cargo.lock
(cd harness && cargo build --release --offline)
echo "setup ok"
