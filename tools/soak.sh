#!/bin/bash
# soak.sh FROM TO [tier] — runs every check at seeds FROM..TO and prints one line each (for stability on the unchanged tree)
cd "$(dirname "$0")/.."
tier=${3:-quick}
for s in $(seq $1 $2); do
  for p in C01 C02 C03 C04 C05 C06 C07 C08 C09 C10 C11 C12 C13 C14 C15 C16 C17 C18; do
    out=$(VERIF_SEED=$s ./check $p --tier $tier 2>&1)
    echo "$out" | grep -E "^(VIOLATION|INCONCLUSIVE|HARNESS)" | head -3
    echo "$out" | grep -E "^  (signature|detail)" | head -4
    echo "$out" | tail -1
  done
done
