#!/usr/bin/env python3
"""seeded_matrix.py [--tier quick] [ID...] — applies every seeded change of /verif/seeded to /repo's working tree in turn, runs the
check of the property it was written against (plus the extra checks listed), reverts, and records the outcome in
seeded/<id>/meta.json ("detection") and seeded/RESULTS.md. Nothing is ever committed to /repo."""
import glob, json, os, re, subprocess, sys, time
ROOT = os.path.dirname(os.path.dirname(os.path.abspath(__file__)))
EXTRA = {"C01a": ["C06"], "C01b": ["C05"], "C02a": ["C04"], "C02b": ["C04"], "C03a": ["C10"], "C03b": ["C08", "C05"], "C04b": ["C05"], "C05a": ["C07"],
         "C07a": ["C05"], "C07b": ["C04"], "C08a": ["C10"], "C08b": ["C05"], "C09a": ["C10"], "C09b": ["C10"], "C10b": ["C08"], "C17a": ["C14"], "C17b": ["C14"],
         # round 2 (ids ending in c / d)
         "C01d": ["C05"], "C02c": ["C04"], "C02d": ["C04"], "C03d": ["C05"], "C04d": ["C05"], "C07d": ["C05"], "C09c": ["C10"], "C09d": ["C10"], "C11d": ["C12"],
         "C12d": ["C13"], "C13c": ["C18"], "C13d": ["C12"], "C17c": ["C18"],
         # round 3 (ids ending in e / f)
         "C01e": ["C08"], "C01f": ["C05"], "C02e": ["C08"], "C02f": ["C04"], "C03e": ["C05"], "C03f": ["C10"], "C04f": ["C05", "C08"], "C07e": ["C10"], "C07f": ["C03"],
         "C11f": ["C18"], "C12e": ["C13", "C18"], "C13e": ["C12"], "C15e": ["C14"],
         # round 4 (ids ending in g / h)
         "C01g": ["C05"], "C03g": ["C10"], "C03h": ["C08", "C10"], "C04g": ["C02"], "C05h": ["C01"], "C06g": ["C14"], "C06h": ["C05"], "C07g": ["C05"], "C07h": ["C05"],
         "C08h": ["C02"], "C09g": ["C10"], "C10g": ["C05"], "C10h": ["C08"], "C11g": ["C18"], "C12h": ["C18"], "C13g": ["C18"], "C13h": ["C12"], "C14h": ["C06"],
         "C16h": ["C05", "C07"], "C17g": ["C18"], "C17h": ["C18"],
         # round 5 (ids ending in i / j)
         "C01i": ["C06"], "C02j": ["C08"], "C03i": ["C10"], "C03j": ["C05"], "C04i": ["C05"], "C05i": ["C08"], "C07i": ["C10"], "C09j": ["C10"], "C12j": ["C17"],
         "C17j": ["C18"],
         # round 6 (ids ending in k / l)
         "C01k": ["C06"], "C02l": ["C08"], "C03k": ["C10"], "C03l": ["C09"], "C04k": ["C05"], "C04l": ["C02"], "C05k": ["C08"], "C06l": ["C17"], "C07l": ["C04"], "C09l": ["C02"],
         "C10k": ["C07"], "C11k": ["C12"], "C11l": ["C13"], "C12k": ["C17"], "C12l": ["C17"], "C13l": ["C17"], "C18k": ["C12"]}
args = sys.argv[1:]; tier = "quick"
if "--tier" in args: i = args.index("--tier"); tier = args[i + 1]; del args[i:i + 2]
ids = args or sorted(os.path.basename(d) for d in glob.glob(ROOT + "/seeded/C*"))
assert subprocess.run(["git", "-C", "/repo", "status", "--porcelain", "--untracked-files=no"], capture_output=True, text=True).stdout.strip() == "", "/repo not clean"
rows = []
for sid in ids:
    d = os.path.join(ROOT, "seeded", sid)
    meta = json.load(open(d + "/meta.json"))
    props = [meta["property"]] + EXTRA.get(sid, [])
    if subprocess.run(["git", "-C", "/repo", "apply", d + "/patch.diff"]).returncode != 0:
        print(sid, "patch does not apply"); continue
    det = {}
    try:
        for p in props:
            t0 = time.time()
            r = subprocess.run([ROOT + "/check", p, "--tier", tier], capture_output=True, text=True, cwd=ROOT, env=dict(os.environ, VERIF_SEED=os.environ.get("VERIF_SEED", "1")))
            sigs = re.findall(r"signature: (.*)", r.stdout)
            det[p] = {"exit": r.returncode, "violation_signatures": sigs[:6], "wall_s": round(time.time() - t0), "tier": tier,
                      "inconclusive": re.findall(r"INCONCLUSIVE.*", r.stdout)[:2]}
            print(sid, p, r.returncode, sigs[:3], flush=True)
    finally:
        subprocess.run(["git", "-C", "/repo", "checkout", "--", "."])
    meta["detection"] = det
    meta["caught_by_own_check"] = det[meta["property"]]["exit"] == 1
    json.dump(meta, open(d + "/meta.json", "w"), indent=1)
    rows.append((sid, meta))
if not args:
    with open(ROOT + "/seeded/RESULTS.md", "w") as f:
        f.write("# Seeded changes: which check catches which (tier %s)\n\n| id | summary | own check | other checks |\n|---|---|---|---|\n" % tier)
        for sid, meta in rows:
            own = meta["detection"][meta["property"]]
            others = "; ".join("%s: %s" % (p, "caught" if v["exit"] == 1 else ("missed" if v["exit"] == 0 else "error")) for p, v in meta["detection"].items() if p != meta["property"])
            f.write("| %s | %s | %s %s | %s |\n" % (sid, (meta.get("summary") or "")[:160].replace("|", "/"), "**caught**" if own["exit"] == 1 else "MISSED", ", ".join(own["violation_signatures"][:2]), others))
