#!/bin/bash
# thorough_all.sh [SEED] — runs every thorough tier once and prints alarms + the summary line of each
cd "$(dirname "$0")/.."
for p in ${PROPS:-C14 C06 C11 C13 C15 C16 C17 C07 C08 C09 C04 C05 C01 C03 C10 C12 C18 C02}; do
  out=$(VERIF_SEED=${1:-1} ./check $p --tier thorough 2>&1)
  echo "$out" | grep -E "^(VIOLATION|INCONCLUSIVE|HARNESS)" | head -3
  echo "$out" | grep -E "^  (signature|detail)" | head -4
  echo "$out" | tail -1
done
