#!/usr/bin/env python3
"""Regenerates the per-check entries of MANIFEST.json from tools/plans.py (explanations, assumptions, engines)."""
import json, os, sys
ROOT = os.path.dirname(os.path.dirname(os.path.abspath(__file__)))
sys.path.insert(0, os.path.join(ROOT, "tools"))
import plans
props = [json.loads(l) for l in open(os.path.join(ROOT, "properties.jsonl"))]
m = json.load(open(os.path.join(ROOT, "MANIFEST.json")))
technique = {
 "C01": "online invariant at the hook (under the total's own lock) + API-boundary observers + model + directed sweeper/worker races",
 "C02": "offline per-key history checker with unique tokens (concurrent histories) + lock-step model; TSan/ASan/Miri in the thorough tier",
 "C03": "lock-step reference model with noise threads and saturated budgets + concurrent final-value clause + directed sweeper races",
 "C04": "lock-step model + directed pre-acknowledgement window + concurrent history checker + held-client coherence probes + instance-counting values (a deleted value must be dropped once every thread is idle)",
 "C05": "quiescent snapshot consistency + directed same-key / sweeper-vs-worker / held-client races",
 "C06": "admission decisions recomputed from independent observations (component level and end-to-end through CacheD)",
 "C07": "lock-step model over key life-cycle states + directed racing puts + concurrent outcome clauses",
 "C08": "lock-step model over request shapes x key states + pipelined upserts + concurrent outcome clauses",
 "C09": "lock-step model under a harness clock + concurrent expiry clause + directed TTL change during a sweep",
 "C10": "sweep events vs model + bounded full-cycle progress + directed sweeper races",
 "C11": "offline order checker over hook events and client stamps",
 "C12": "directed enumeration of poll placements + executor-like stress + Miri phase sweep + end-to-end awaits",
 "C13": "concurrent shutdown histories + logical hang detection",
 "C14": "exhaustive byte cases + reference sketch differential + end-to-end estimate lower bound",
 "C15": "skew-immune online inequality + quiescent identities with stalled consumer",
 "C16": "statistics identities after every step of S-mode and at the quiescent point of concurrent runs",
 "C17": "catch_unwind + thread-exit guards + panic hook over boundary inputs (incl. a clock stepping backwards, 40 KiB inline values: a shard aborted by a stack overflow is a finding)",
 "C18": "stress at maximal lock sharing + logical hang detection; TSan/Miri in the thorough tier",
}
checks = []
for p in props:
    pid = p["id"]; pl = plans.plan(pid, "quick", 1)
    engines = sorted(set(a[0][0] + (":" + a[0][a[0].index("--scenario") + 1] if "--scenario" in a[0] else "") for a in pl["shards"]))
    checks.append({
        "property_id": pid,
        "quick_cmd": "./check %s --tier quick" % pid,
        "thorough_cmd": "./check %s --tier thorough" % pid,
        "evidence_file": "/verif/evidence/%s.json" % pid,
        "replay_cmd_template": "./check %s --replay {path}" % pid,
        "engine": " + ".join(engines) + (" + miri" if pl.get("extras") else ""),
        "technique": "runtime monitoring: " + technique[pid] + ("; the cache-level shards run in three flavours: u64 keys/values, boxed keys/values whose Hash/Eq/Clone/Drop are seeded schedule points and self-checking, and 40 KiB inline values" if any("/" in a[0][0] for a in pl["shards"]) else ""),
        "level_claimed": {"category": "exploration",
                          "text": "Held on the executions this run produced, nothing more: " + pl["explanation"][:1400],
                          "design_ref": "DESIGN.md §5 " + pid + " and Part II §7"},
        "level_note": "Trusted base: the verif hooks in /repo (add-only, cfg-guarded), the harness oracle/model, rustc. Coverage is sampling: seeded generators, schedule perturbation, stretched sites and directed gates; unobserved interleavings and inputs are not covered. Required observations (a run that misses one is INCONCLUSIVE, not a pass): " + ", ".join(pl["require"][:8]) + ". " + "; ".join(pl["assumptions"][:3]),
    })
m["checks"] = checks
m["engines"] = [e for e in m["engines"] if e["name"] != "typed"] + [{
    "name": "typed", "path": "harness/src/typed.rs",
    "kind_free_text": "typed flavours of seq / conc (cargo features typed, big; binaries target-typed, target-big): sut::Cache wraps a real CacheD<TKey, TVal> behind the u64 surface of the scenarios; Hash / Eq / Clone / Drop of the key and value types are user-code schedule points (bounded seeded delays inside and between DashMap calls), values verify checksum + payload (+ a 40 KiB inline page) on every read, instances are counted (created + cloned - dropped) for the value-release oracle",
    "serves_properties": sorted(c["property_id"] for c in checks if "typed/" in c["engine"] or "big/" in c["engine"])}]
m["setup_cmd"] = "./setup.sh"
m["hooks"]["source_commits"] = ["a2ceb03", "1bc4573", "aa630dd", "462e88e"]
m["not_applicable"] = []
json.dump(m, open(os.path.join(ROOT, "MANIFEST.json"), "w"), indent=1)
print("checks:", len(checks))
