#!/usr/bin/env python3
"""confirm_seeded.py LANE ID [ID...]  — independent confirmation of seeded changes in a scratch worktree of /repo.
For each /tmp/mut/<Cnn>/<v> (ID = Cnn/v): (1) the unedited suite passes with the change, (2) the demo fails with the
change, (3) the demo passes without it. Results: /tmp/confirm/<Cnn><v>.json. The worktree /tmp/cf-LANE is reused."""
import json, os, re, subprocess, sys, time
lane = sys.argv[1]; ids = sys.argv[2:]
BASE = os.environ.get("MUT_BASE", "/tmp/mut"); OUT = os.environ.get("CONFIRM_DIR", "/tmp/confirm"); os.makedirs(OUT, exist_ok=True)
wt = "/tmp/cf-%s" % lane
if not os.path.isdir(wt):
    subprocess.run(["git", "-C", "/repo", "worktree", "add", "-q", "--detach", wt, "HEAD"], check=True)
env = dict(os.environ, CARGO_NET_OFFLINE="true")
def sh(cmd, timeout=1500):
    try:
        p = subprocess.run(cmd, cwd=wt, env=env, shell=True, stdout=subprocess.PIPE, stderr=subprocess.STDOUT, text=True, timeout=timeout)
        return p.returncode, p.stdout
    except subprocess.TimeoutExpired as e:
        return 124, (e.stdout or b"").decode(errors="replace") if isinstance(e.stdout, bytes) else (e.stdout or "")
def tally(out):
    passed = sum(int(x) for x in re.findall(r"test result: \w+\. (\d+) passed", out))
    failed = sum(int(x) for x in re.findall(r"test result: \w+\. \d+ passed; (\d+) failed", out))
    return passed, failed
for mid in ids:
    prop, v = mid.split("/")
    src = "%s/%s/%s" % (BASE, prop, v)
    name = "demo_%s%s" % (prop.lower(), v)
    res = {"id": prop + v, "property": prop}
    sh("git checkout -q -- . && git clean -fdq tests src")
    rc, out = sh("git apply %s/patch.diff" % src)
    res["patch_applies"] = rc == 0
    if rc == 0:
        t0 = time.time()
        rc, out = sh("cargo test --workspace --no-fail-fast --offline 2>&1")
        p, f = tally(out)
        res["suite_with_change"] = {"exit": rc, "passed": p, "failed": f, "s": round(time.time() - t0)}
        rc2, out2 = sh("cargo build --offline --features verif 2>&1")
        res["builds_with_verif"] = rc2 == 0
        sh("cp %s/demo.rs tests/%s.rs" % (src, name))
        rc, out = sh("cargo test --offline --test %s 2>&1" % name, timeout=900)
        p, f = tally(out)
        res["demo_with_change"] = {"exit": rc, "passed": p, "failed": f, "tail": out[-400:]}
        sh("git checkout -q -- .")
        rc, out = sh("cargo test --offline --test %s 2>&1" % name, timeout=900)
        p, f = tally(out)
        res["demo_without_change"] = {"exit": rc, "passed": p, "failed": f, "tail": out[-300:] if rc else ""}
        sh("rm -f tests/%s.rs" % name)
    ok = res.get("patch_applies") and res["suite_with_change"]["exit"] == 0 and res["suite_with_change"]["failed"] == 0 and res["suite_with_change"]["passed"] >= 299 \
        and res["demo_with_change"]["exit"] != 0 and res["demo_without_change"]["exit"] == 0 and res.get("builds_with_verif")
    res["confirmed"] = bool(ok)
    json.dump(res, open("%s/%s%s.json" % (OUT, prop, v), "w"), indent=1)
    print(prop + v, "confirmed" if ok else "NOT CONFIRMED", res.get("suite_with_change"), res.get("demo_with_change", {}).get("exit"), res.get("demo_without_change", {}).get("exit"), flush=True)
