#!/usr/bin/env python3
"""mutest.py PATCH PROP [PROP...] [--tier quick] [--seed N]
Applies PATCH to /repo's working tree, runs ./check for each property, reverts the tree. Prints one line per property."""
import subprocess, sys, os, re, time
args = sys.argv[1:]
patch = args[0]; props = []; tier = "quick"; seed = "1"
i = 1
while i < len(args):
    if args[i] == "--tier": tier = args[i+1]; i += 2
    elif args[i] == "--seed": seed = args[i+1]; i += 2
    else: props.append(args[i]); i += 1
assert subprocess.run(["git", "-C", "/repo", "status", "--porcelain", "--untracked-files=no"], capture_output=True, text=True).stdout.strip() == "", "/repo not clean"
r = subprocess.run(["git", "-C", "/repo", "apply", patch])
if r.returncode != 0: sys.exit("patch does not apply")
try:
    for p in props:
        t0 = time.time()
        env = dict(os.environ, VERIF_SEED=seed)
        r = subprocess.run(["/verif/check", p, "--tier", tier], capture_output=True, text=True, env=env, cwd="/verif")
        sigs = re.findall(r"signature: (.*)", r.stdout)
        inc = re.findall(r"INCONCLUSIVE.*", r.stdout)
        print("%s exit=%d %.0fs %s %s" % (p, r.returncode, time.time()-t0, sigs[:4], inc[:2]), flush=True)
        if r.returncode == 2: print(r.stdout[-1500:], r.stderr[-1500:])
finally:
    subprocess.run(["git", "-C", "/repo", "checkout", "--", "."])
