#!/usr/bin/env python3
"""store_round.py <mut_base> <confirm_dir> <round> <suffix_a> <suffix_b> — copies confirmed sub-agent changes (mut_base/Cnn/{a,b}) to
seeded/Cnn<suffix>/ with a meta.json that records who wrote them and how they were confirmed."""
import json, os, shutil, sys, glob
ROOT = os.path.dirname(os.path.dirname(os.path.abspath(__file__)))
base, cdir, rnd, sa, sb = sys.argv[1:6]
head = os.popen("git -C /repo rev-parse --short HEAD").read().strip()
for d in sorted(glob.glob(base + "/C*/[ab]")):
    prop, var = d.split("/")[-2:]
    cf = os.path.join(cdir, prop + var + ".json")
    if not os.path.exists(cf): print("no confirmation", prop, var); continue
    conf = json.load(open(cf))
    if not conf.get("confirmed"): print("NOT confirmed", prop, var); continue
    sid = prop + (sa if var == "a" else sb)
    out = os.path.join(ROOT, "seeded", sid)
    if os.path.exists(out + "/meta.json"): continue  # already stored (its meta.json may carry a detection block by now)
    os.makedirs(out, exist_ok=True)
    shutil.copy(d + "/patch.diff", out + "/patch.diff"); shutil.copy(d + "/demo.rs", out + "/demo.rs")
    am = json.load(open(d + "/meta.json")) if os.path.exists(d + "/meta.json") else {}
    meta = {"id": sid, "property": prop, "round": int(rnd), "summary": am.get("summary", ""), "needs": am.get("needs", ""), "files": am.get("files", []),
            "origin": "round %s: written by an independent sub-agent that saw only the property text, one-line summaries of the earlier changes for this property (to avoid repeating them) and a scratch worktree of /repo (nothing from /verif)" % rnd,
            "confirmed_by_me": {"how": "tools/confirm_seeded.py in a scratch worktree of /repo (%s at storing time): cargo test --workspace --no-fail-fast --offline with the change; cargo build --features verif; demo.rs dropped into tests/ and run with and without the change" % head,
                                "suite_with_change": conf.get("suite_with_change"), "builds_with_verif": conf.get("builds_with_verif"),
                                "demo_with_change_exit": conf.get("demo_with_change", {}).get("exit"), "demo_with_change_tail": conf.get("demo_with_change", {}).get("tail", "")[-400:],
                                "demo_without_change_exit": conf.get("demo_without_change", {}).get("exit"), "confirmed": True}}
    json.dump(meta, open(out + "/meta.json", "w"), indent=1)
    print("stored", sid)
