#!/usr/bin/env python3
"""add-only patch helper: ins.py FILE  (reads JSON list of {anchor, text, where: before|after, nth?} from stdin)"""
import sys, json
p=sys.argv[1]; s=open(p).read()
for e in json.load(sys.stdin):
    a=e['anchor']; n=s.count(a)
    nth=e.get('nth')
    if nth is None:
        if n!=1: sys.exit(f"{p}: anchor {a!r} occurs {n} times")
        i=s.index(a)
    else:
        i=-1
        for _ in range(nth+1):
            i=s.index(a,i+1)
    if e.get('where','after')=='after':
        j=i+len(a); s=s[:j]+e['text']+s[j:]
    else:
        s=s[:i]+e['text']+s[i:]
open(p,'w').write(s)
