"""Thorough-tier substrates: the same harness sources built with the nightly toolchain and run under
ThreadSanitizer, AddressSanitizer and Miri. Each `*_extra(prop, tier, seed, target, env)` returns a dict the
driver merges: engine, evaluations, sigs, sigs_nontrivial, counts, samples, findings, inconclusive, errors.

The workloads here install NO harness hooks (scenario `bare`, `c12-miri`): the sanitizer / interpreter is the
oracle and the monitor must not add happens-before edges of its own.
"""
import json
import os
import re
import subprocess
import time
from concurrent.futures import ThreadPoolExecutor

ROOT = os.path.dirname(os.path.dirname(os.path.abspath(__file__)))
NIGHTLY = os.path.join(ROOT, "harness-nightly")
TRIPLE = "x86_64-unknown-linux-gnu"


def _result(engine):
    return {"engine": engine, "evaluations": 0, "sigs": [], "sigs_nontrivial": [], "counts": {}, "samples": [], "findings": [],
            "inconclusive": [], "errors": []}


def _ensure_lock():
    lock = os.path.join(NIGHTLY, "Cargo.lock")
    if not os.path.exists(lock):
        raise RuntimeError("harness-nightly/Cargo.lock is missing (it is committed: ahash bumped to 0.8.12 for the nightly)")


def _build(kind, env, features=None):
    """kind: tsan | asan. Returns (binary path, error text). features: cargo features of the harness (the typed flavours)."""
    _ensure_lock()
    target_dir = os.path.join(ROOT, "target-" + kind + ("-" + features if features else ""))
    e = dict(env)
    e.pop("CARGO_TARGET_DIR", None)
    cmd = ["cargo", "+nightly", "build", "--release", "--offline", "--quiet", "--target", TRIPLE, "--target-dir", target_dir]
    if kind == "tsan":
        e["RUSTFLAGS"] = "-Zsanitizer=thread"
        cmd += ["-Zbuild-std"]
    else:
        e["RUSTFLAGS"] = "-Zsanitizer=address -Cforce-frame-pointers=yes"
    if features:
        cmd += ["--features", features]
    p = subprocess.run(cmd, cwd=NIGHTLY, env=e, stdout=subprocess.PIPE, stderr=subprocess.STDOUT, text=True)
    if p.returncode != 0:
        return None, p.stdout[-3000:]
    return os.path.join(target_dir, TRIPLE, "release", "cvh"), ""


def _symbolizer():
    for cand in ("/usr/bin/llvm-symbolizer-14", "/usr/bin/llvm-symbolizer", "/usr/lib/llvm-14/bin/llvm-symbolizer"):
        if os.path.exists(cand):
            return cand
    return ""


REPORT_RE = re.compile(r"WARNING: ThreadSanitizer: (.+?) \(pid")


def _parse_tsan(text):
    """Splits a TSan log into reports; returns list of (kind, first in-repo frame or None, first frames)."""
    reports = []
    blocks = text.split("==================")
    for block in blocks:
        m = REPORT_RE.search(block)
        if not m:
            continue
        frames = re.findall(r"#\d+ (\S+) ", block)
        in_repo = next((f for f in frames if "tinylfu_cached" in f), None)
        reports.append((m.group(1), in_repo, frames[:6]))
    return reports


def _run_sanitized(kind, binary, prop, seed, shards, per_shard, threads, ops, env, features=None):
    log_dir = os.path.join(ROOT, "target-" + kind + ("-" + features if features else ""), "logs")
    os.makedirs(log_dir, exist_ok=True)
    for f in os.listdir(log_dir):
        os.unlink(os.path.join(log_dir, f))
    sym = _symbolizer()

    def one(i):
        e = dict(env)
        out = os.path.join(log_dir, "out-%d.json" % i)
        if kind == "tsan":
            e["TSAN_OPTIONS"] = "halt_on_error=0 exitcode=66 second_deadlock_stack=1 log_path=%s/tsan-%d %s" % (log_dir, i, ("external_symbolizer_path=" + sym) if sym else "")
        else:
            e["ASAN_OPTIONS"] = "detect_leaks=0:halt_on_error=1:abort_on_error=0:exitcode=67:log_path=%s/asan-%d%s" % (log_dir, i, (":external_symbolizer_path=" + sym) if sym else "")
        argv = [binary, "conc", "--scenario", "bare", "--focus", prop, "--seed", str(seed), "--from", str(i), "--stride", str(shards),
                "--count", str(per_shard), "--threads", str(threads), "--ops", str(ops), "--out", out]
        try:
            p = subprocess.run(argv, env=e, stdout=subprocess.PIPE, stderr=subprocess.PIPE, text=True, timeout=1800)
            return i, p.returncode, out, p.stderr[-1500:]
        except subprocess.TimeoutExpired:
            return i, "timeout", out, ""

    with ThreadPoolExecutor(max_workers=shards) as pool:
        runs = list(pool.map(one, range(shards)))
    return runs, log_dir


def _sanitizer_extra(kind, prop, tier, seed, target, env, features=None):
    res = _result(kind + ("-" + features if features else ""))
    t0 = time.time()
    binary, err = _build(kind, env, features)
    if binary is None:
        res["errors"].append("%s build failed: %s" % (kind, err[-800:]))
        return res
    res["counts"][kind + ("_" + features if features else "") + "_build_s"] = int(time.time() - t0)
    shards, per_shard, threads, ops = (12, 30, 8, 3000) if kind == "tsan" else (12, 40, 8, 4000)
    if features:
        # heap-owning keys and values (harness/src/typed.rs): a use-after-free or double free of an entry inside DashMap / crossbeam, which
        # is a silent stale read with u64 values, is an invalid access to a freed Box here
        shards, per_shard = 8, per_shard // 2
        seed = seed + 1000
    runs, log_dir = _run_sanitized(kind, binary, prop, seed, shards, per_shard, threads, ops, env, features)
    if features:
        kind_tag = kind + "-" + features
    else:
        kind_tag = kind
    seen = {}
    for i, status, out, stderr in runs:
        if status == "timeout":
            res["inconclusive"].append("%s shard %d hit its watchdog" % (kind, i))
            continue
        if os.path.exists(out):
            shard = json.load(open(out))
            res["evaluations"] += shard["evaluations"]
            res["sigs"] += [kind_tag + s for s in shard["sigs"]]
            res["sigs_nontrivial"] += [kind_tag + s for s in shard["sigs_nontrivial"]]
            for k, v in shard["counts"].items():
                res["counts"][kind_tag + ":" + k] = res["counts"].get(kind_tag + ":" + k, 0) + v
            for f in shard["findings"]:
                f["signature"] = f["signature"] + "/" + kind
                res["findings"].append(f)
            if shard["samples"] and len(res["samples"]) < 1:
                res["samples"].append(dict(shard["samples"][0], substrate=kind))
        elif status not in (66, 67):
            res["errors"].append("%s shard %d exited with %s and wrote nothing: %s" % (kind, i, status, stderr[-400:]))
        if kind == "asan" and status == 67:
            text = ""
            for f in os.listdir(log_dir):
                if f.startswith("asan-%d" % i):
                    text += open(os.path.join(log_dir, f), errors="replace").read()
            m = re.search(r"ERROR: AddressSanitizer: (\S+)", text)
            frames = re.findall(r"#\d+ 0x[0-9a-f]+ in (\S+)", text)
            in_repo = next((f for f in frames if "tinylfu_cached" in f), None)
            sig = "%s/asan/%s/%s" % (prop, m.group(1) if m else "error", in_repo or (frames[0] if frames else "?"))
            res["findings"].append({"props": [prop], "signature": sig, "detail": text[:1500], "witness": {"substrate": "asan", "shard": i}, "count": 1,
                                    "inconclusive": False})
    if kind == "tsan":
        for f in sorted(os.listdir(log_dir)):
            if not f.startswith("tsan-"):
                continue
            for rkind, in_repo, frames in _parse_tsan(open(os.path.join(log_dir, f), errors="replace").read()):
                key = (rkind, in_repo or frames[0] if frames else "?")
                seen[key] = seen.get(key, 0) + 1
        res["counts"]["tsan_reports_total"] = sum(seen.values())
        res["counts"]["tsan_reports_distinct"] = len(seen)
        for (rkind, where), n in sorted(seen.items()):
            if "tinylfu_cached" in str(where):
                res["findings"].append({"props": [prop], "signature": "%s/tsan/%s/%s" % (prop, rkind.replace(" ", "-"), where),
                                        "detail": "ThreadSanitizer: %s with first in-repo frame %s (%d report(s))" % (rkind, where, n),
                                        "witness": {"substrate": "tsan"}, "count": n, "inconclusive": False})
            else:
                res["counts"]["tsan_reports_wholly_in_dependencies"] = res["counts"].get("tsan_reports_wholly_in_dependencies", 0) + n
    return res


def tsan_extra(prop, tier, seed, target, env):
    return _sanitizer_extra("tsan", prop, tier, seed, target, env)


def asan_extra(prop, tier, seed, target, env):
    return _sanitizer_extra("asan", prop, tier, seed, target, env)


def asan_typed_extra(prop, tier, seed, target, env):
    return _sanitizer_extra("asan", prop, tier, seed, target, env, features="typed")


def tsan_typed_extra(prop, tier, seed, target, env):
    return _sanitizer_extra("tsan", prop, tier, seed, target, env, features="typed")


MIRI_ERR = re.compile(r"error: (Undefined Behavior|unsupported operation|deadlock|the evaluated program deadlocked|Data race|memory leaked|abnormal termination)[^\n]*")


def _miri(prop, seed, jobs, engine, env, timeout, features=None):
    """jobs: list of (miriflags, argv). Runs them in parallel processes; parses JSON lines and Miri errors."""
    _ensure_lock()
    res = _result(engine)
    target_dir = os.path.join(ROOT, "target-miri" + ("-" + features if features else ""))
    feat = ["--features", features] if features else []
    e0 = dict(env)
    e0.pop("CARGO_TARGET_DIR", None)
    # build once (and warm the sysroot) so that the parallel runs do not serialise on cargo's lock for long
    warm = subprocess.run(["cargo", "+nightly", "miri", "run", "--offline"] + feat + ["--target-dir", target_dir, "--", "comp", "--scenario", "c14-bytes", "--focus", "C14"],
                          cwd=NIGHTLY, env=dict(e0, MIRIFLAGS="-Zmiri-ignore-leaks"), stdout=subprocess.PIPE, stderr=subprocess.PIPE, text=True)
    if warm.returncode != 0 and "error[" in warm.stderr:
        res["errors"].append("miri build failed: " + warm.stderr[-800:])
        return res

    def one(job):
        flags, argv = job
        e = dict(e0, MIRIFLAGS=flags)
        try:
            p = subprocess.run(["cargo", "+nightly", "miri", "run", "--offline"] + feat + ["--target-dir", target_dir, "--"] + argv, cwd=NIGHTLY, env=e,
                               stdout=subprocess.PIPE, stderr=subprocess.PIPE, text=True, timeout=timeout)
            return flags, argv, p.returncode, p.stdout, p.stderr
        except subprocess.TimeoutExpired as ex:
            return flags, argv, "timeout", (ex.stdout or b"").decode(errors="replace") if isinstance(ex.stdout, bytes) else (ex.stdout or ""), ""

    with ThreadPoolExecutor(max_workers=16) as pool:
        runs = list(pool.map(one, jobs))
    for flags, argv, status, stdout, stderr in runs:
        seeds_run = 0
        for line in stdout.splitlines():
            if not line.startswith("{"):
                continue
            try:
                shard = json.loads(line)
            except ValueError:
                continue
            seeds_run += 1
            res["evaluations"] += shard["evaluations"]
            tag = "%s#%d" % (engine, res["evaluations"])
            res["sigs"] += [tag + s for s in shard["sigs"]]
            res["sigs_nontrivial"] += [tag + s for s in shard["sigs_nontrivial"]]
            for k, v in shard["counts"].items():
                res["counts"][engine + ":" + k] = res["counts"].get(engine + ":" + k, 0) + v
            for f in shard["findings"]:
                f["signature"] = f["signature"] + "/miri"
                f.setdefault("count", 1)
                f["witness"] = {"substrate": "miri", "MIRIFLAGS": flags, "argv": argv, "inner": f.get("witness")}
                res["findings"].append(f)
            if shard["samples"] and not res["samples"]:
                res["samples"].append(dict(shard["samples"][0], substrate="miri", MIRIFLAGS=flags) if isinstance(shard["samples"][0], dict) else shard["samples"][0])
        res["counts"][engine + ":interpreted_executions"] = res["counts"].get(engine + ":interpreted_executions", 0) + seeds_run
        if status == "timeout":
            res["inconclusive"].append("miri job hit its watchdog: %s" % " ".join(argv))
            continue
        m = MIRI_ERR.search(stderr)
        if m:
            failing = re.search(r"FAILING SEED: (\d+)", stderr)
            in_repo = re.search(r"(tinylfu_cached::[\w:<>]+|src/cache/[\w/]+\.rs:\d+)", stderr)
            where = in_repo.group(1) if in_repo else "dependency"
            kindname = m.group(1).replace(" ", "-")
            sig = "%s/miri/%s/%s" % (prop, kindname, re.sub(r":\d+$", "", where))
            res["findings"].append({"props": [prop], "signature": sig, "detail": stderr[stderr.find("error:"):][:1800], "count": 1, "inconclusive": False,
                                    "witness": {"substrate": "miri", "MIRIFLAGS": flags, "failing_seed": failing.group(1) if failing else None, "argv": argv}})
        elif status != 0 and seeds_run == 0:
            res["errors"].append("miri job exited with %s without output: %s" % (status, stderr[-500:]))
    return res


def miri_ack_extra(prop, tier, seed, target, env):
    jobs = []
    # 480 variants = 3 statuses x {same, changing waker} x {3 spinning : 1 waiting} x 20 delay phases; 16 seeds each, split over 16 processes
    for i in range(16):
        flags = "-Zmiri-many-seeds=%d..%d -Zmiri-preemption-rate=0.2 -Zmiri-ignore-leaks" % (i, i + 1)
        jobs.append((flags, ["comp", "--scenario", "c12-miri", "--focus", prop, "--from", "0", "--count", "480"]))
    return _miri(prop, seed, jobs, "miri-ack", env, 3000)


def miri_ack_quick_extra(prop, tier, seed, target, env):
    """Quick-tier slice: the 480-variant phase sweep once, at one interpreter seed, split over 16 processes."""
    jobs = []
    miri_seed = seed % 64
    for i in range(16):
        flags = "-Zmiri-seed=%d -Zmiri-preemption-rate=0.2 -Zmiri-ignore-leaks" % miri_seed
        jobs.append((flags, ["comp", "--scenario", "c12-miri", "--focus", prop, "--from", str(30 * i), "--count", "30"]))
    return _miri(prop, seed, jobs, "miri-ack", env, 900)


def miri_cache_extra(prop, tier, seed, target, env):
    jobs = []
    for i in range(16):
        flags = "-Zmiri-many-seeds=%d..%d -Zmiri-preemption-rate=0.1 -Zmiri-ignore-leaks" % (4 * i, 4 * i + 4)
        jobs.append((flags, ["conc", "--scenario", "bare", "--miri", "1", "--focus", prop, "--seed", str(seed), "--from", str(i), "--count", "2",
                             "--threads", "3", "--ops", "5", "--keys", "2"]))
    return _miri(prop, seed, jobs, "miri-cache", env, 3000)


def miri_cache_typed_extra(prop, tier, seed, target, env):
    """The same tiny cache workload over boxed keys and values: Miri then checks every access DashMap's and crossbeam's unsafe code makes to an
    entry that owns heap memory (use after free, double drop, leaks of the value are undefined behaviour or reported, not silent)."""
    jobs = []
    for i in range(8):
        flags = "-Zmiri-many-seeds=%d..%d -Zmiri-preemption-rate=0.1 -Zmiri-ignore-leaks" % (100 + 4 * i, 100 + 4 * i + 4)
        jobs.append((flags, ["conc", "--scenario", "bare", "--miri", "1", "--focus", prop, "--seed", str(seed + 1000), "--from", str(i), "--count", "2",
                             "--threads", "3", "--ops", "5", "--keys", "2"]))
    return _miri(prop, seed, jobs, "miri-cache-typed", env, 3000, features="typed")
