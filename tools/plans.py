"""Per-property plans: which engines run, how they are sharded, what must have been observed."""

CORES = 16


def seq_shards(focus, seed, per_shard, budget_s, clean=None, shards=CORES):
    out = []
    for i in range(shards):
        argv = ["seq", "--focus", focus, "--seed", str(seed), "--from", str(i), "--stride", str(shards),
                "--count", str(per_shard), "--budget-s", str(budget_s)]
        if clean is not None:
            argv += ["--clean", str(clean)]
        out.append((argv, budget_s * 4 + 300))
    return out


def conc_shards(focus, seed, scenario, per_shard, budget_s, shards=CORES, extra=None):
    out = []
    for i in range(shards):
        argv = ["conc", "--focus", focus, "--scenario", scenario, "--seed", str(seed), "--from", str(i), "--stride", str(shards),
                "--count", str(per_shard), "--budget-s", str(budget_s)]
        if extra:
            argv += extra
        out.append((argv, budget_s * 4 + 300))
    return out


def comp_shards(focus, seed, scenario, per_shard, budget_s, shards=CORES, extra=None):
    out = []
    for i in range(shards):
        argv = ["comp", "--focus", focus, "--scenario", scenario, "--seed", str(seed), "--from", str(i), "--stride", str(shards),
                "--count", str(per_shard), "--budget-s", str(budget_s)]
        if extra:
            argv += extra
        out.append((argv, budget_s * 4 + 300))
    return out


SEQ_RULE = ("S-mode: seeded generator draws a cache configuration and a history of 25-60 awaited operations "
            "(4 put variants, 2^4 upsert shapes, delete, 7 read variants, clock jumps incl. to 1 ns before/after a deadline, "
            "full sweep cycles, deletes with the worker held) over 3-8 keys; after every step the real cache is compared with a "
            "reference model (status, read-back, every key through a rotating read variant, structural snapshot, statistics, online "
            "weight invariant). distinct = hash of the (operation shape, key state) sequence; non-trivial = the history reached at "
            "least one critical state of this property (listed under critical_states_reached).")

COMMON_ASSUMPTIONS = [
    "the reference model encodes the intended semantics as stated by the properties; operations on the exact instant of expiry are not judged",
    "the harness clock only moves between operations (S-mode); sweeps are awaited through the SweepCompleted counter, never by sleeping",
]


def plan(prop, tier, seed):
    quick = tier != "thorough"
    n = 140 if quick else 2500
    b = 40 if quick else 420
    if prop in SEQ_ONLY:
        info = SEQ_ONLY[prop]
        return {
            "shards": seq_shards(prop, seed, n, b),
            "rule": SEQ_RULE,
            "explanation": info["explanation"],
            "assumptions": COMMON_ASSUMPTIONS + info.get("assumptions", []),
            "require": info["require"],
        }
    return None


SEQ_ONLY = {
    "C03": {
        "explanation": "No-pressure S-mode histories (sum of the maximum weight of every key fits the cache) with 0-3 noise threads working on "
                       "disjoint keys, sketch ageing (counters down to 2), 1 ms sweeps and clock movement; every key of the owner is read after "
                       "every step and must return its latest acknowledged value while the model says it is live.",
        "require": ["reads_returned_value", "keys_swept", "noise_ops"],
    },
    "C07": {
        "explanation": "All four put variants against keys in every life-cycle state (never written, live, live with TTL, deleted and acknowledged, "
                       "swept, past TTL but unswept): a readable key must answer KeyAlreadyExists and stay untouched, an absent-reading key must never.",
        "require": ["critical:put-on-readable-key", "puts_accepted"],
    },
    "C08": {
        "explanation": "All builder-accepted upsert shapes against keys in the states absent, live, live+ttl, expired-unswept, soft-deleted "
                       "(worker held so that the Delete is still queued); value, expiry (through get_ref) and charged weight (snapshot) are compared "
                       "with the model right after the call and at the next quiescent point.",
        "require": ["upserts_taking_put_path", "structure_checks"],
    },
    "C09": {
        "explanation": "TTL alphabet {0, 1 ns, 1 s - 1 ns, 1 s, shards s, 1 h, 2^32 s, u32::MAX s, random}, clock jumps landing 1 ns before / 1 ns after / far "
                       "after a deadline, TTL add/change/remove followed by jumps across the old and new deadline, sweeper at 1 ms or never (1 h tick), "
                       "2-256 shards; every read variant must serve the value strictly before the deadline and never after it.",
        "require": ["reads_before_deadline", "reads_after_deadline", "deadlines_crossed"],
    },
    "C16": {
        "explanation": "After every step of S-mode histories (no-pressure and pressure, all-hit and all-miss prefixes, weight decreases through upserts, "
                       "evictions, sweeps) the statistics are compared with what the harness issued and with the snapshot: hits+misses = lookups, "
                       "added-deleted = held, weight added-removed = used, rejected = admission refusals, hit ratio = hits/lookups.",
        "require": ["stats_checks", "critical:all-hit-prefix", "critical:all-miss-prefix"],
    },
    "C17": {
        "explanation": "S-mode histories with arguments at and around type/arithmetic boundaries (weights 1, 24, 25, max, max+1, i64::MAX; TTL 0..Duration::MAX; "
                       "counters 1..2^20; queue/pool/buffer 1): every API call runs under catch_unwind, background threads report their exit through a drop "
                       "guard, a panic hook records file and message, and a liveness probe (put + await + get) ends every history.",
        "require": ["liveness_probes"],
    },
}
