"""Per-property plans: which engines run, how they are sharded, what must have been observed."""

CORES = 16


def seq_shards(focus, seed, per_shard, budget_s, clean=None, shards=CORES):
    out = []
    for i in range(shards):
        argv = ["seq", "--focus", focus, "--seed", str(seed), "--from", str(i), "--stride", str(shards),
                "--count", str(per_shard), "--budget-s", str(budget_s)]
        if clean is not None:
            argv += ["--clean", str(clean)]
        out.append((argv, budget_s * 4 + 300))
    return out


def conc_shards(focus, seed, scenario, per_shard, budget_s, shards=CORES, extra=None):
    out = []
    for i in range(shards):
        argv = ["conc", "--focus", focus, "--scenario", scenario, "--seed", str(seed), "--from", str(i), "--stride", str(shards),
                "--count", str(per_shard), "--budget-s", str(budget_s)]
        if extra:
            argv += extra
        out.append((argv, budget_s * 4 + 300))
    return out


def comp_shards(focus, seed, scenario, per_shard, budget_s, shards=CORES, extra=None):
    out = []
    for i in range(shards):
        argv = ["comp", "--focus", focus, "--scenario", scenario, "--seed", str(seed), "--from", str(i), "--stride", str(shards),
                "--count", str(per_shard), "--budget-s", str(budget_s)]
        if extra:
            argv += extra
        out.append((argv, budget_s * 4 + 300))
    return out


def typed_extra(focus, seed, scenario, per_shard, budget_s):
    """One additional shard of a directed scenario on the typed build (its own index range, so that it does not repeat the plain shard's cases)."""
    argv, timeout = conc_shards(focus, seed, scenario, per_shard, budget_s, shards=1)[0]
    argv = ["typed/conc"] + argv[1:]
    argv[argv.index("--from") + 1] = "500000"
    return [(argv, timeout)]


SEQ_RULE = ("S-mode: seeded generator draws a cache configuration and a history of 25-60 awaited operations "
            "(4 put variants, 2^4 upsert shapes, delete, 7 read variants, clock jumps incl. to 1 ns before/after a deadline, "
            "full sweep cycles, deletes with the worker held) over 3-8 keys; after every step the real cache is compared with a "
            "reference model (status, read-back, every key through a rotating read variant, structural snapshot, statistics, online "
            "weight invariant). distinct = hash of the (operation shape, key state) sequence; non-trivial = the history reached at "
            "least one critical state of this property (listed under critical_states_reached).")

COMMON_ASSUMPTIONS = [
    "the reference model encodes the intended semantics as stated by the properties; operations on the exact instant of expiry are not judged",
    "the harness clock moves between operations and, in some TTL upserts, once between two readings of the calling thread (S-mode); sweeps are awaited through the SweepCompleted counter, never by sleeping",
]


CONC_RULE = ("C-mode: N client threads (2-16) on 1-8 keys against one real cache; every call recorded at the client boundary with call/return "
             "stamps from one global counter, acknowledgements awaited with a real waker (never re-polled without a wake), seeded yields / "
             "spins / sleeps injected at the verif schedule points, directed gates for named races. distinct = hash of the observed "
             "(thread, schedule point) sequence (an interleaving signature) or of the scenario parameters; non-trivial = the case reached "
             "the contended situation the property is about (see observed.*).")


# what the later rounds of seeded changes added to each plan (appended to the explanation that the evidence carries)
ADDENDA = {
    "C01": "One shard of admission decisions (comp c06, a few of them among 1500 residents) runs under C01: an accepted put must leave the total within the limit.",
    "C02": "Iterators are also interrupted (an acknowledged write or a clock movement between two items: every next() is a read of its own), consumed through nth(), and run over 65-200 positions with repeats.",
    "C03": "A quarter of the histories may put a key that is past its time-to-live and not yet swept (refused today: the recorded C07 finding, which ends the history; if it is admitted the old charge must not linger and cost a live key its place). A sixth of the histories use weights around 2^34; every second cache is configured through the public Config fields after build().",
    "C04": "Typed flavour: at the quiescent point after an accepted delete the number of live value instances (created + cloned - dropped, counted by the value type itself) must come down to the number of stored entries - a deleted value the cache still owns while every thread is idle has not been released. 'release' also issues two deletes behind a held worker (no acknowledgement may claim 'accepted' or 'does not exist' while the key is still stored and charged); 'fanout' deletes thousands of keys while the sweeper evicts them.",
    "C05": "The directed sweeper-vs-worker races (update-sweep, sweep-other-key, sweep-reput) run once more on the typed build: the key's Hash and Clone and the value's Drop then run inside the windows between the index, the store and the weight steps. 'fanout': thousands of distinct keys put at the same moment (ids pairwise distinct, each charged, total = sum); 'held-client' pipelines weight updates behind a held worker.",
    "C06": "Capacity hints 1-16 with more victims than the hint; one decision in 150 among 1500 residents; evicting must not stop while victims remain; 'estimate' (readers + a storm of never-read keys) must not evict a resident with recorded hits; a refused put stores nothing.",
    "C07": "'fanout' (every absent-reading key can be put again after full sweep cycles), 'held-ref', 'release', the expired-key sweep race followed to the point where the extended TTL has passed, and racing puts that each weigh the whole cache.",
    "C08": "Every second pipelined burst of 'held-client' is sized so that the command queue is exactly full when its last weight upsert is sent (from a helper thread, blocked in its send until the held worker resumes): the charged weight must still be that last one's. The custom weight function charges its own TTL surcharge; builder setters are called in varying order; the clock may move inside a TTL upsert.",
    "C10": "'fanout' bursts (over a thousand keys due in one sweep of one shard), 'slow-tick' (2-3 s ticks), 'held-ref' (a reader keeps reference guards while a key of the shard expires), revival upserts of expired keys, the sweeper holding its shard for 150 ms.",
    "C11": "Every fourth burst runs in a cache so small that the puts evict each other, with reader threads; 'drop-backlog' drops the last handle with writes still queued; the shutdown scenario runs too; thorough tier: a 12 s stall behind a full queue and 62 s without a write.",
    "C12": "'c12-busy': a long-lived completer and poller in a tight loop (300 000 acknowledgements per shard); the mixed clients also await writes issued from inside map_get closures.",
    "C13": "Shutdown is also called from inside mapping functions; sequential histories whose command worker died end with shutdown(): it returns and every read is absent.",
    "C14": "Whole ageing windows of never-seen hashes; 70 000 first accesses in one window of 200 000 counters; every second shard runs without a logger; thorough tier: an estimate must survive 62 quiet seconds.",
    "C15": "Every eleventh read of the 'stall' readers goes through map_get_ref with a mapping function that panics (caught by the reader): the hit is counted, so its record must be accounted too. 'estimate' (paced readers while a writer storms the full cache with puts that make the command worker consult the sketch) ends with the same quiescent identities: the consumer and the worker contend for the sketch's lock there. At quiescence the sketch's position inside its ageing window must equal (records handed over) mod counters; pools up to 1024 buffers and buffers up to 1000 records.",
    "C17": "The configured clock also steps BACKWARDS (1 ms - 3 s, while no key carries a time-to-live, so that every later deadline is unambiguous) with sweeps on both sides of the step: a clock is any implementation of the public trait, and wall clocks are corrected. The stress workload of C18 runs here too (a wedged worker no longer completes writes); sub-millisecond sweeper ticks; single-counter sketches.",
    "C18": "One lock-holding site is stretched a few dozen times per case; clients call back into the cache from map_get closures, from the mapping iterator's function and between iterator items; acknowledgements are pre-polled by another task; the shutdown scenario runs too.",
}


TYPED_NOTE = (" Typed flavours (harness/src/typed.rs): in every group of at least four shards of a cache-level engine each fourth shard (in a group of two or three: the last one) runs the same "
              "scenarios and oracles against a real CacheD<TKey, TVal> - boxed, heap-owning keys and values whose Hash / Eq / Clone / Drop "
              "implementations are seeded schedule points inside user code (bounded yields, spins up to 60 us, sleeps up to 250 us: in the middle "
              "of DashMap calls and between adjacent calls where the crate has no hook), which check their own consistency on every read and "
              "are counted (observed.typed_*) - and, in groups of at least six, one shard stores values with a 40 KiB inline page, moved by "
              "value through the command queue on the worker's stack (a shard aborted by a stack overflow is a C17 finding).")

# engines whose subject is a whole CacheD (component monitors and sanitizer / Miri workloads keep their own types)
_CACHE_LEVEL = ("seq", "conc")
_PLAIN_ONLY = ("bare", "idle")


def with_flavours(shards):
    """Every fourth shard of a group (same engine + scenario) of >= 4 shards runs on the typed build, one shard of a group of >= 6 on the big one."""
    groups = {}
    for n, (argv, _) in enumerate(shards):
        scenario = argv[argv.index("--scenario") + 1] if "--scenario" in argv else ""
        if argv[0] in _CACHE_LEVEL and scenario not in _PLAIN_ONLY:
            groups.setdefault((argv[0], scenario), []).append(n)
    out = list(shards)
    for members in groups.values():
        g = len(members)
        if g in (2, 3):
            # a directed scenario with two or three shards: its last shard runs over the typed keys and values
            argv, timeout = out[members[-1]]
            out[members[-1]] = (["typed/" + argv[0]] + argv[1:], timeout)
            continue
        if g < 4:
            continue
        for j, n in enumerate(members):
            argv, timeout = out[n]
            if j % 4 == 3:
                out[n] = (["typed/" + argv[0]] + argv[1:], timeout)
            elif j == 1 and g >= 6:
                out[n] = (["big/" + argv[0]] + argv[1:], timeout)
    return out


def plan(prop, tier, seed):
    out = _plan(prop, tier, seed)
    if out is not None and prop in ADDENDA:
        out["explanation"] = out["explanation"] + " Added after seeded changes were missed: " + ADDENDA[prop]
    if out is not None:
        out["shards"] = with_flavours(out["shards"])
        if any("/" in argv[0] for argv, _ in out["shards"]):
            out["explanation"] += TYPED_NOTE
            out["assumptions"] = out["assumptions"] + ["typed flavours: the wrapper converts u64 ids / tokens to TKey / TVal at the API boundary; in the 40 KiB flavour the default weight function is replaced by one answering 40 / 64"]
    return out


def _plan(prop, tier, seed):
    quick = tier != "thorough"
    if prop in SEQ_ONLY:
        info = SEQ_ONLY[prop]
        n, b = (140, 40) if quick else (2500, 420)
        shards = seq_shards(prop, seed, n, b)
        extra = info.get("extra_shards")
        if extra:
            more = extra(seed, quick)
            shards = shards[:max(8, 16 - len(more))] + more
        return {"shards": shards, "rule": SEQ_RULE + (" " + CONC_RULE if extra else ""), "explanation": info["explanation"],
                "assumptions": COMMON_ASSUMPTIONS + info.get("assumptions", []), "require": info["require"]}
    if prop in OTHER:
        return OTHER[prop](seed, quick)
    return None


def _c01(seed, quick):
    n, b = (140, 40) if quick else (2000, 400)
    m, mb = (25, 40) if quick else (500, 400)
    return {
        "shards": seq_shards("C01", seed, n, b, shards=6) + comp_shards("C01", seed, "c06", 2000 if quick else 40000, b, shards=1) + conc_shards("C01", seed, "mixed", m, mb, shards=7) + conc_shards("C01", seed, "update-sweep", 120 if quick else 3000, mb, shards=1) + conc_shards("C01", seed, "sweep-other-key", 144 if quick else 3000, mb, shards=1) + typed_extra("C01", seed, "sweep-other-key", 72 if quick else 3000, mb) + typed_extra("C01", seed, "update-sweep", 60 if quick else 3000, mb),
        "rule": SEQ_RULE + " " + CONC_RULE,
        "explanation": "Online invariant: every change of the total weight emits WeightChanged{site,new_total,max} under the total's own write lock "
                       "(add / update / delete); the recorder asserts 0 <= new_total <= max at that instant. Two observer threads spin on the public "
                       "total_weight_used() during every concurrent case. Workloads: S-mode pressure histories with boundary weights (free-1, free, free+1, "
                       "max-1, max, max+1) and C-mode mixed runs under pressure with expiry/sweeps racing the worker; half of the concurrent cases give every "
                       "write of a key the same explicit weight, so the bound is also checked where the recorded UpdateWeight defect cannot play.",
        "assumptions": COMMON_ASSUMPTIONS + ["observation stops before shutdown(): clear() may race a worker delete"],
        "require": ["weight_change_events", "observer_samples", "evictions", "forced_long_delays_hit", "sweeps_overlapping_worker_commands", "puts_admitted_while_the_sweeper_was_mid_eviction"],
    }


def _c02(seed, quick):
    m, mb = (30, 40) if quick else (600, 420)
    n, b = (120, 40) if quick else (2000, 400)
    plan = {
        "shards": conc_shards("C02", seed, "mixed", m, mb, shards=12) + seq_shards("C02", seed, n, b, shards=4),
        "rule": CONC_RULE + " " + SEQ_RULE,
        "explanation": "Every value is a unique token (key<<40 | writer<<32 | counter). Offline per-key checker over the recorded concurrent history: a returned "
                       "token must have been written to that key by a call that began before the read ended, must not belong to a rejected put, and must not "
                       "have been superseded (another accepted write or a delete of the key began after the source write was acknowledged and was complete "
                       "before the read began). All seven read variants are used; pressure, TTL expiry, constant hash and schedule perturbation are drawn per "
                       "case. S-mode adds back-to-back agreement of all variants with the model after every step.",
        "assumptions": COMMON_ASSUMPTIONS + ["a write completes when the client observes its acknowledgement; a delete completes at call return only with respect to writes acknowledged before it began"],
        "require": ["reads_overlapping_a_write_of_the_same_key", "reads_returned_value", "all_variant_rounds", "writes_to_a_definitely_present_key_judged"],
    }
    if not quick:
        import sanit
        plan["extras"] = [sanit.tsan_extra, sanit.asan_extra, sanit.miri_cache_extra, sanit.asan_typed_extra, sanit.miri_cache_typed_extra]
    return plan


def _c05(seed, quick):
    m, mb = (25, 40) if quick else (500, 400)
    n, b = (100, 40) if quick else (2000, 400)
    return {
        "shards": conc_shards("C05", seed, "same-key", 24 if quick else 400, mb, shards=3) + conc_shards("C05", seed, "update-sweep", 120 if quick else 3000, mb, shards=1) + conc_shards("C05", seed, "sweep-other-key", 144 if quick else 3000, mb, shards=1) + conc_shards("C05", seed, "sweep-reput", 60 if quick else 3000, mb, shards=1) + conc_shards("C05", seed, "mixed", m, mb, shards=4) + conc_shards("C05", seed, "fanout", 30 if quick else 3000, mb, shards=1) + conc_shards("C05", seed, "held-client", 300 if quick else 20000, mb, shards=1) + seq_shards("C05", seed, n, b, shards=4)
                  + typed_extra("C05", seed, "update-sweep", 60 if quick else 3000, mb) + typed_extra("C05", seed, "sweep-other-key", 72 if quick else 3000, mb) + typed_extra("C05", seed, "sweep-reput", 30 if quick else 3000, mb),
        "rule": CONC_RULE + " " + SEQ_RULE,
        "explanation": "At quiescent points (every command acknowledged, two sweeps completed since the clock stopped) the snapshot must satisfy: total = sum of "
                       "charged weights, charged ids = ids of held entries, and after deleting every key total_weight_used() = 0. Directed races: two puts of one "
                       "key that both pass the existence check before either is applied (two threads with a gate after the check; one thread with the worker "
                       "held), put racing upsert, delete racing put; worker-vs-sweeper races on the same keys (TTL keys updated / deleted / re-put while the clock crosses their expiry, with one "
                       "critical section or gap stretched by a long bounded delay so that the other thread's step lands inside it); plus free-running mixed histories with un-awaited writes, eviction and sweeps.",
        "assumptions": COMMON_ASSUMPTIONS,
        "require": ["quiescent_points_checked", "races_where_both_writes_passed_the_existence_check_before_the_first_was_applied", "delete_everything_checks", "reputs_completed_while_the_sweeper_was_stretched", "forced_long_delays_hit", "upserts_of_an_expired_key_made_while_the_sweeper_held_the_shard"],
    }


def _c06(seed, quick):
    n, b = (4000, 40) if quick else (150000, 400)
    return {
        "shards": comp_shards("C06", seed, "c06", n, b, shards=10) + seq_shards("C06", seed, 100 if quick else 2000, b, shards=4)
                  + conc_shards("C06", seed, "estimate", 150 if quick else 20000, 40 if quick else 400, shards=2),
        "rule": "Component level: a real AdmissionPolicy is filled with 0-9 keys (weights 1..max/3), access frequencies are set directly (0..20 accesses: ties, "
                "saturated estimates 15/16), then one decision is made for an incoming key with weight in {free-1, free, free+1, max, max+1, 1, huge, random} and "
                "0..20 prior accesses. distinct = (decision class, #keys, incoming estimate, #victims); non-trivial = not the plain fast path on an empty cache. " + SEQ_RULE,
        "explanation": "The decision is recomputed independently of the event's own numbers: before the put the harness reads the charged keys, their weights and "
                       "their estimates through the accessor; afterwards it checks the recorded sample of every step (size min(5,#keys), distinct, all charged, "
                       "refilled without previous victims), that each victim is the minimum-estimate key of its sample, that it was evicted iff its estimate does "
                       "not exceed the incoming key's, that eviction stopped as soon as space sufficed, that the delete hook saw exactly the victims, the final "
                       "status against the resulting space and the total against the arithmetic. Fits => accepted with zero victims; over-weight => rejected "
                       "for that reason, nothing changed. End-to-end: in S-mode pressure histories through the real CacheD (pool 1 x buffer 1-2, so that hits reach the sketch through "
                       "the real buffering / consumer pipeline) the same replay is applied to every put that goes to admission: the access queue is drained, the charged keys and "
                       "their estimates are read through the accessors, and the recorded steps, the status and the total afterwards are judged against them.",
        "assumptions": ["the tie rule (heavier first) is recorded as coverage, not enforced: the statement only orders by estimate", "no access is being applied while a decision runs (the access queue is drained first)"],
        "require": ["decisions:multi-victim-accept", "decisions:partial-evict-reject", "decisions:over-weight", "decisions:fits", "decisions_with_a_tie_for_the_coldest_key",
                    "end_to_end_decisions:evict-one-accept", "end_to_end_decisions_with_a_warm_incoming_key", "end_to_end_decisions_with_warm_residents"],
    }


def _c11(seed, quick):
    m, mb = (12, 40) if quick else (300, 420)
    return {
        # thorough only: the two real-time cases (a 12 s stall behind a full queue, 62 s without a write)
        "shards": conc_shards("C11", seed, "burst", m, mb, shards=12 if quick else 10) + conc_shards("C11", seed, "held-client", 600 if quick else 20000, mb, shards=2)
                  + conc_shards("C11", seed, "drop-backlog", 200 if quick else 20000, mb, shards=1) + conc_shards("C11", seed, "shutdown", 400 if quick else 20000, mb, shards=1)
                  + ([] if quick else conc_shards("C11", seed, "idle", 1, 200, shards=2)),
        "rule": "Bursts of 10-300 un-awaited writes from 1-16 threads, command_buffer_size in {1,2,3,8,32768}, worker slowed at its dequeue / before its acknowledgement "
                "so that the queue really fills. distinct = hash of the execution order (thread, per-thread sequence number); non-trivial = at least 10 queued "
                "commands and, with more than one thread, cross-thread ordered pairs were available.",
        "explanation": "Offline order checker over the hook events Sent/ExecBegin/ExecEnd (stamped from one counter) cross-checked at the client boundary: every "
                       "queued uid executed exactly once, executions never overlap, execution order respects per-thread submission order and cross-thread "
                       "real-time order (A returned before B was invoked), each acknowledgement (polled once with its own recording waker right after the call) "
                       "completes in submission order per thread and carries the ExecEnd status, put+delete of a private key without awaiting leaves it absent, "
                       "and the final contents / KeysAdded / KeysDeleted equal a sequential replay of the executed commands.",
        "assumptions": ["no memory pressure in this scenario (cache weight 10^8) so that the sequential replay is exact"],
        "require": ["commands_executed", "same_thread_ordered_pairs_checked", "cross_thread_ordered_pairs_checked", "wake_order_pairs_checked", "sends_that_found_the_queue_full", "final_content_checks", "bursts_with_expiring_keys", "pipelined_upsert_bursts_checked"],
    }


def _c12(seed, quick):
    m, mb = (25, 40) if quick else (500, 400)
    plan = {
        "shards": comp_shards("C12", seed, "c12-directed", 1, 120, shards=1) + comp_shards("C12", seed, "c12-stress", 1500 if quick else 60000, mb, shards=4) + comp_shards("C12", seed, "c12-busy", 300000 if quick else 20000000, mb, shards=3) + conc_shards("C12", seed, "mixed", m, mb, shards=6) + conc_shards("C12", seed, "shutdown", 800 if quick else 40000, mb, shards=4),
        "rule": "Directed: all placements of 1-3 sequential polls (same or fresh waker) into the four gaps of done() {before, between its two stores, before the wake, "
                "after return} x 3 final statuses, the completer held by gates at the lock-free schedule points: 312 cases, exhaustive at that granularity. Stress: "
                "an executor-like poller (waits for its own waker, spurious re-polls, waker changes; sometimes two tasks on one handle) vs done() with seeded delays "
                "at the sites between done()'s steps and inside poll(). Interpreter: the same protocol under Miri (no hooks installed), a free-running or waiting "
                "poller against a completer whose start is swept over 20 phases x 3 statuses x waker change (480 variants; quick: one interpreter seed, thorough: 16), "
                "which reaches windows between adjacent instructions that have no schedule site, with data-race and UB detection. End-to-end: every acknowledgement of the C-mode mixed runs is awaited with a real waker. " + CONC_RULE,
        "explanation": "Refuted by Ready(Pending), two different Ready values, a Ready different from the status given to done(), Pending after done() returned, "
                       "Pending after Ready, a task whose last poll was Pending not being woken although done() returned (decided logically: the wake happens inside "
                       "done(), so once done() has returned the wake count must be non-zero), or an acknowledgement unresolved at quiescence.",
        "assumptions": ["'eventually completes' is restated as: resolved by the time every sent command has been acknowledged by the worker"],
        "require": ["polls_inside_gap_1", "polls_inside_gap_2", "wake_obligations_checked", "stress_polls", "acks:Accepted", "acknowledgements_of_commands_behind_shutdown", "acknowledgements_first_polled_by_another_task"],
    }
    import sanit
    plan["extras"] = [sanit.miri_ack_quick_extra] if quick else [sanit.miri_ack_extra]
    plan["require"] = plan["require"] + ["miri-ack:interpreted_executions"]
    return plan


def _c13(seed, quick):
    m, mb = (400, 40) if quick else (40000, 420)
    return {
        # S-mode histories in which the command worker dies (recorded C17 findings) end with shutdown(): it must return and every read be absent
        "shards": conc_shards("C13", seed, "shutdown", m, mb, shards=14) + seq_shards("C13", seed, 60 if quick else 2000, mb, shards=2),
        "rule": "2-16 writer threads in tight loops, 1-3 threads calling shutdown() at random points (also concurrently), command_buffer_size in {1,2,8}, seeded "
                "perturbation at the shutdown / send / worker schedule points; every third case holds one write between the flag check and the send until Shutdown "
                "is queued. distinct = (commands that ran, commands behind Shutdown, thread counts); non-trivial = some commands ran before the Shutdown command.",
        "explanation": "After shutdown() returned on a thread every API is called on that thread (all writes must return Err, all reads absent/empty); other threads "
                       "order themselves behind the return through the global stamp. Every acknowledgement handed out before/during shutdown is awaited with a "
                       "real waker and must carry the ExecEnd status if the command ran or ShuttingDown if it was drained behind Shutdown; exactly one Shutdown "
                       "command may be executed; shutdown() not returning is decided by the logical-hang test (every thread in futex wait, no progress).",
        "assumptions": ["'no caller waits forever' is restated as: every acknowledgement resolves once the worker has drained the queue"],
        "require": ["acknowledgements_of_commands_that_ran", "acknowledgements_of_commands_behind_shutdown", "post_shutdown_api_calls_checked", "writes_held_past_the_flag_check", "acknowledgements_first_polled_by_another_task"],
    }


def _c14(seed, quick):
    return {
        "shards": comp_shards("C14", seed, "c14", 6 if quick else 400, 400, shards=12) + conc_shards("C14", seed, "estimate", 300 if quick else 20000, 40 if quick else 400, shards=4 if quick else 3)
                  + ([] if quick else conc_shards("C14", seed, "idle", 1, 200, shards=1, extra=["--from", "1"])),
        "rule": "Packed rows: all 256 byte values x 2 nibble positions (exhaustive for that part). Sketch / TinyLFU: every counter count 1..=130 plus random larger ones "
                "(non-powers of two included), random access streams over a 6-12 hash alphabet with collisions, against an unpacked reference sketch fed the same "
                "row seeds. distinct = (part, byte/position | counter count, stream seed); every case is non-trivial (each exercises increments and ageing).",
        "explanation": "increment_at changes only its own nibble and saturates at 15; get_at reads the right nibble; half_counters = floor(n/2) per nibble; "
                       "FrequencyCounter::estimate = reference minimum and the whole matrix equals the reference after the stream; TinyLFU: estimate >= min(recorded "
                       "accesses in the window, 15) and <= 16, the reset happens at exactly `counters` recorded accesses (also inside a batch), halves every "
                       "counter (matrix compared before/after) and clears the first-access filter. End-to-end through CacheD: readers hit resident keys a known number of times (paced so "
                       "that nothing is dropped, 10^6 counters so that nothing ages) while a writer storms the full cache with puts that are rejected after consulting the sketch "
                       "(read-lock traffic against the consumer's write lock); afterwards every key's estimate must be at least min(hits - still buffered, 15).",
        "assumptions": ["bloom-filter false positives only raise estimates: only the lower bound and the cap are asserted on estimates"],
        "require": ["byte_cases", "counter_counts_covered", "tinylfu_resets", "saturated_estimates_seen", "filter_checked_right_after_ageing", "end_to_end_estimates_checked", "rejected_puts_consulting_the_sketch_during_the_reads"],
    }


def _c15(seed, quick):
    m, mb = (20, 40) if quick else (400, 420)
    return {
        "shards": conc_shards("C15", seed, "stall", m, mb, shards=10) + conc_shards("C15", seed, "estimate", 150 if quick else 20000, mb, shards=2) + seq_shards("C15", seed, 100 if quick else 2000, mb, shards=4),
        "rule": "1-16 reader threads over live and missing keys, pool in {1,2,32} x buffer in {1,2,64}; variant 0 stalls the consumer with a gate before it takes the "
                "sketch lock, variant 1 slows it with delays, variant 2 lets it run; each reader performs pool*buffer*12+50 reads. distinct = (pool, buffer, readers, "
                "variant, dropped?, hash mode); non-trivial = hits were recorded and the quiescent identities were evaluated. " + SEQ_RULE,
        "explanation": "While running, a sampler reads added, dropped -> buffered (under each buffer's lock) -> hits in that order and asserts added+dropped+buffered <= hits "
                       "(the order makes the inequality immune to skew). With the consumer stalled the readers must still finish (completion vs. the logical-hang test), "
                       "and once more hits were recorded than the pipeline can hold AccessDropped must be > 0. At quiescence hits = added + dropped + buffered and the "
                       "number of records applied to the sketch (BatchApplied events) = AccessAdded.",
        "assumptions": COMMON_ASSUMPTIONS,
        "require": ["runs_with_the_consumer_held_at_the_gate", "runs_where_buffers_were_dropped", "quiescent_identity_checks", "identity_samples_while_running", "quiescent_identity_checks_after_the_worker_consulted_the_sketch_during_reads"],
    }


def _c18(seed, quick):
    plan = {
        "shards": conc_shards("C18", seed, "stress", 6 if quick else 60, 60 if quick else 500, shards=12, extra=["--ops", "2500" if quick else "20000"])
                  + conc_shards("C18", seed, "shutdown", 400 if quick else 20000, 40 if quick else 400, shards=4),
        "rule": "8-16 threads x thousands of operations of every type (7 read variants, multi-key reads, 4 put variants, TTL upserts, weight upserts, deletes, a "
                "shutdown mid-run in a third of the cases, calls back into the cache from the mapping function of map_get and between two items of a multi-key iterator) on 1-4 keys with 2 shards, queue 1, pool 1 x buffer 1, evictions on nearly every put, sweeps every 1 ms with "
                "the clock advancing, seeded delays at the lock-holding sites. distinct = interleaving signature (hash of the (thread, schedule point) sequence).",
        "explanation": "A hang is decided logically, not by a timer: a watchdog declares it only when some client has not finished, the hook-event progress counter is "
                       "unchanged and every thread of the process other than sweeper timer threads is blocked in futex (read from /proc/self/task/*/syscall). Every "
                       "acknowledgement is awaited with a real waker, so a lost wake-up or a dead worker also surfaces. No client holds a get_ref guard across a call.",
        "assumptions": ["runnable threads are never in futex, so machine load cannot produce the hang condition; the wall-clock watchdog alone yields inconclusive"],
        "require": ["operations_completed", "distinct_cross_thread_site_adjacencies", "schedule_perturbations_injected", "calls_back_into_the_cache_from_map_get_or_between_iterator_items", "concurrent_shutdown_calls"],
    }
    if not quick:
        import sanit
        plan["extras"] = [sanit.tsan_extra, sanit.miri_cache_extra, sanit.tsan_typed_extra, sanit.miri_cache_typed_extra]
    return plan


OTHER = {"C01": _c01, "C02": _c02, "C05": _c05, "C06": _c06, "C11": _c11, "C12": _c12, "C13": _c13, "C14": _c14, "C15": _c15, "C18": _c18}


def _c04_extra(seed, quick):
    return conc_shards("C04", seed, "mixed", 40 if quick else 600, 40 if quick else 400, shards=3) + conc_shards("C04", seed, "held-client", 600 if quick else 20000, 40 if quick else 400, shards=1) + conc_shards("C04", seed, "release", 300 if quick else 20000, 40 if quick else 400, shards=2) + conc_shards("C04", seed, "fanout", 45 if quick else 3000, 40 if quick else 400, shards=2)


def _c08_extra(seed, quick):
    return (conc_shards("C08", seed, "held-client", 600 if quick else 20000, 40 if quick else 400, shards=1) + conc_shards("C08", seed, "mixed", 30 if quick else 600, 40 if quick else 400, shards=2)
            + conc_shards("C08", seed, "locked-shard", 24 if quick else 2000, 40 if quick else 400, shards=1))


def _c07_extra(seed, quick):
    return (conc_shards("C07", seed, "same-key", 24 if quick else 400, 40 if quick else 400, shards=1) + conc_shards("C07", seed, "held-client", 600 if quick else 20000, 40 if quick else 400, shards=1)
            + conc_shards("C07", seed, "mixed", 40 if quick else 600, 40 if quick else 400, shards=3) + conc_shards("C07", seed, "locked-shard", 24 if quick else 2000, 40 if quick else 400, shards=1)
            + conc_shards("C07", seed, "fanout", 30 if quick else 3000, 40 if quick else 400, shards=1) + conc_shards("C07", seed, "sweep-other-key", 144 if quick else 3000, 40 if quick else 400, shards=1) + conc_shards("C07", seed, "held-ref", 40 if quick else 3000, 40 if quick else 400, shards=1) + conc_shards("C07", seed, "release", 150 if quick else 20000, 40 if quick else 400, shards=1))


def _c03_extra(seed, quick):
    # free-running concurrent histories without memory pressure (final value of every key whose last write was not overlapped) and the
    # directed sweeper-vs-reput race
    return (conc_shards("C03", seed, "mixed", 30 if quick else 600, 40 if quick else 400, shards=2) + conc_shards("C03", seed, "sweep-reput", 60 if quick else 3000, 40 if quick else 400, shards=1)
            + conc_shards("C03", seed, "sweep-other-key", 144 if quick else 3000, 40 if quick else 400, shards=1) + conc_shards("C03", seed, "same-key", 80 if quick else 3000, 40 if quick else 400, shards=1))


def _c09_extra(seed, quick):
    # expiry under concurrency: clients record the harness clock around every call while an advancer thread moves it
    return (conc_shards("C09", seed, "mixed", 30 if quick else 600, 40 if quick else 400, shards=3) + conc_shards("C09", seed, "sweep-other-key", 144 if quick else 3000, 40 if quick else 400, shards=1)
            + conc_shards("C09", seed, "slow-tick", 1 if quick else 12, 60 if quick else 400, shards=2))


def _c10_extra(seed, quick):
    return (conc_shards("C10", seed, "sweep-reput", 60 if quick else 3000, 40 if quick else 400, shards=1) + conc_shards("C10", seed, "update-sweep", 120 if quick else 3000, 40 if quick else 400, shards=1)
            + conc_shards("C10", seed, "sweep-other-key", 144 if quick else 3000, 40 if quick else 400, shards=2) + conc_shards("C10", seed, "fanout", 30 if quick else 3000, 40 if quick else 400, shards=1) + conc_shards("C10", seed, "slow-tick", 1 if quick else 12, 60 if quick else 400, shards=2) + conc_shards("C10", seed, "held-ref", 40 if quick else 3000, 40 if quick else 400, shards=1)
            + typed_extra("C10", seed, "update-sweep", 60 if quick else 3000, 40 if quick else 400) + typed_extra("C10", seed, "sweep-reput", 30 if quick else 3000, 40 if quick else 400))


def _c16_extra(seed, quick):
    # counters are bumped from many client threads at once: the identities are re-evaluated at the quiescent point of concurrent runs
    return conc_shards("C16", seed, "mixed", 25 if quick else 500, 40 if quick else 400, shards=4) + conc_shards("C16", seed, "fanout", 30 if quick else 3000, 40 if quick else 400, shards=1) + conc_shards("C16", seed, "ack-stats", 8 if quick else 400, 40 if quick else 400, shards=1)


def _c17_extra(seed, quick):
    # the stress workload of C18 as well: a wedged worker or sweeper no longer "keeps completing writes"
    return conc_shards("C17", seed, "mixed", 20 if quick else 400, 40 if quick else 400, shards=4) + conc_shards("C17", seed, "stress", 8 if quick else 60, 60 if quick else 500, shards=4 if quick else 2, extra=["--ops", "2500" if quick else "20000"]) + ([] if quick else conc_shards("C17", seed, "idle", 1, 200, shards=2))


SEQ_ONLY = {
    "C03": {
        "explanation": "No-pressure S-mode histories (sum of the maximum weight of every key fits the cache) with 0-3 noise threads working on "
                       "disjoint keys, sketch ageing (counters down to 2), 1 ms sweeps and clock movement; every key of the owner is read after "
                       "every step and must return its latest acknowledged value while the model says it is live. A third of the histories keep the cache filled to exactly the demanded "
                       "maximum (weights not judged) so that weight kept charged by mistake turns into forbidden eviction or rejection. C-mode adds free-running concurrent runs "
                       "without pressure (a key whose last put/delete began after every other write of it was acknowledged must end in that state) and the directed race "
                       "'sweeper evicting an expired incarnation while the key is deleted and put again'.",
        "require": ["reads_returned_value", "keys_swept", "noise_ops", "final_values_checked", "reput_presence_checks", "capacity_probes"],
        "extra_shards": _c03_extra,
    },
    "C04": {
        "explanation": "S-mode: deletes of keys in every state (never put, live, live+ttl, expired, already deleted, swept), delete/put/delete sequences, exact model "
                       "of status, snapshot and total afterwards (weight released, re-put possible, delete of an absent key = KeyDoesNotExist and changes nothing). "
                       "Directed window: the worker is held before it executes the Delete, delete() has returned, all seven read variants are issued from the "
                       "deleting thread and from another thread and must report absent. C-mode mixed histories add the per-key rule 'a value acknowledged before "
                       "a delete began is never read after that delete returned' under free interleaving. The model-free 'release' scenario reads the total and the weight charged for "
                       "the key before each delete (after its weight was raised and lowered by upserts, also far beyond the limit of the cache, and time-to-live added) and demands that the "
                       "accepted delete lowers the total by exactly that weight, that a second delete is refused and changes nothing, that the total is zero once every key is deleted and "
                       "that every key can then be put again.",
        "require": ["reads_inside_delete_window", "critical:delete-of-absent-key", "critical:delete-of-live-key", "reads_overlapping_a_write_of_the_same_key", "deletes_of_held_keys_judged", "deletes_of_keys_heavier_than_the_cache", "reputs_after_delete_accepted"],
        "extra_shards": _c04_extra,
    },
    "C10": {
        "explanation": "Bounded-progress restatement: after the clock has dwelt, with at least one completed sweep each, on `shards` consecutive seconds all later than a "
                       "key's expiry, the key is gone from store, weight map and index and its weight is released. Safety half after every step: every id the sweeper "
                       "evicts (SweepCompleted event) must belong to a key whose current expiry is earlier than the sweep's clock reading; a live key must never be "
                       "missing; index entries must match the stored expiry and shard; old index entries of earlier incarnations coming due are counted.",
        "require": ["keys_swept", "critical:full-cycle", "sweep_evicted_ids", "deadlines_crossed", "reputs_completed_while_the_sweeper_was_stretched", "ttl_changes_made_while_the_sweeper_held_the_shard"],
        "extra_shards": _c10_extra,
    },
    "C07": {
        "extra_shards": _c07_extra,
        "explanation": "All four put variants against keys in every life-cycle state (never written, live, live with TTL, deleted and acknowledged, "
                       "swept, past TTL but unswept): a readable key must answer KeyAlreadyExists and stay untouched, an absent-reading key must never.",
        "require": ["critical:put-on-readable-key", "puts_accepted", "races_where_both_writes_passed_the_existence_check_before_the_first_was_applied", "writes_to_a_definitely_present_key_judged", "coherence_probes", "puts_of_a_readable_key_under_lock_contention"],
    },
    "C08": {
        "explanation": "All builder-accepted upsert shapes against keys in the states absent, live, live+ttl, expired-unswept, soft-deleted "
                       "(worker held so that the Delete is still queued); value, expiry (through get_ref) and charged weight (snapshot) are compared "
                       "with the model right after the call and at the next quiescent point.",
        "require": ["upserts_taking_put_path", "structure_checks", "pipelined_upsert_bursts_checked", "writes_to_a_definitely_present_key_judged", "upserts_of_a_readable_key_under_lock_contention"],
        "extra_shards": _c08_extra,
    },
    "C09": {
        "explanation": "TTL alphabet {0, 1 ns, 1 s - 1 ns, 1 s, shards s, 1 h, 2^32 s, u32::MAX s, random}, clock jumps landing 1 ns before / 1 ns after / far "
                       "after a deadline, TTL add/change/remove followed by jumps across the old and new deadline, sweeper at 1 ms or never (1 h tick), "
                       "2-256 shards; every read variant must serve the value strictly before the deadline and never after it. C-mode adds expiry under concurrency: clients record the "
                       "harness clock around every call while an advancer thread moves it; a read that began after (clock at the write's acknowledgement + ttl) must not return that value. The clock is also moved INSIDE a TTL upsert (between two readings of "
                       "the calling thread: any reading is accepted as now, store and sweeper index must agree), exactly onto a deadline (reads and sweeps must give one answer about that "
                       "instant), and past the deadline of a key that a multi-key iterator has not yielded yet. 'slow-tick': sweeper ticks of 2 and 3 s of real time with deadlines in the "
                       "current, the next and a later second.",
        "require": ["reads_before_deadline", "reads_after_deadline", "deadlines_crossed", "reads_of_values_with_a_known_deadline", "ttl_changes_made_while_the_sweeper_held_the_shard", "slow_tick_cases_completed", "clock_moved_between_two_readings_inside_an_upsert"],
        "extra_shards": _c09_extra,
    },
    "C16": {
        "explanation": "After every step of S-mode histories (no-pressure and pressure, all-hit and all-miss prefixes, weight decreases through upserts, "
                       "evictions, sweeps) the statistics are compared with what the harness issued and with the snapshot: hits+misses = lookups, "
                       "added-deleted = held, weight added-removed = used, rejected = admission refusals, hit ratio = hits/lookups. The same identities are evaluated at the quiescent "
                       "point of concurrent C-mode runs (2-16 threads bumping the counters at once), against the lookups and refusals the clients recorded. 'ack-stats': one client polls each acknowledgement in a tight loop and reads the counters the moment it is Ready "
                       "(nothing is in flight then): KeysRejected / KeysAdded / KeysDeleted / the weight counters must already be exact. 'fanout': thousands of distinct keys put at the same "
                       "moment, KeysAdded = held afterwards, KeysAdded = KeysDeleted once everything is gone.",
        "require": ["stats_checks", "critical:all-hit-prefix", "critical:all-miss-prefix", "concurrent_stats_checks", "counters_read_the_moment_an_acknowledgement_resolved"],
        "extra_shards": _c16_extra,
    },
    "C17": {
        "explanation": "S-mode histories with arguments at and around type/arithmetic boundaries (weights 1, 24, 25, max, max+1, i64::MAX; TTL 0..Duration::MAX; "
                       "counters 1..2^20; queue/pool/buffer 1): every API call runs under catch_unwind, background threads report their exit through a drop "
                       "guard, a panic hook records file and message, and a liveness probe (put + await + get) ends every history.",
        "require": ["liveness_probes"],
        "extra_shards": _c17_extra,
    },
}
