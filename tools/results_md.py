#!/usr/bin/env python3
"""results_md.py — rewrites seeded/RESULTS.md from the `detection` blocks that tools/seeded_matrix.py stored in every seeded/<id>/meta.json
(each block is the outcome of the most recent matrix run for that change; nothing is re-run here)."""
import glob, json, os
ROOT = os.path.dirname(os.path.dirname(os.path.abspath(__file__)))
rows = []
for d in sorted(glob.glob(ROOT + "/seeded/C*")):
    meta = json.load(open(d + "/meta.json"))
    det = meta.get("detection")
    if not det: rows.append((meta["id"], meta, None)); continue
    rows.append((meta["id"], meta, det))
with open(ROOT + "/seeded/RESULTS.md", "w") as f:
    f.write("# Seeded changes: which check catches which (quick tier; most recent matrix run of each change)\n\n")
    caught = sum(1 for _, m, det in rows if det and det.get(m["property"], {}).get("exit") == 1)
    f.write("%d changes, %d caught by the check of the property they were written against.\n\n| id | round | summary | own check | other checks |\n|---|---|---|---|---|\n" % (len(rows), caught))
    for sid, meta, det in rows:
        if not det:
            f.write("| %s | %s | %s | not run | |\n" % (sid, meta.get("round", 1), (meta.get("summary") or "")[:150].replace("|", "/"))); continue
        own = det.get(meta["property"], {})
        others = "; ".join("%s: %s" % (p, "caught" if v["exit"] == 1 else ("missed" if v["exit"] == 0 else "error")) for p, v in det.items() if p != meta["property"])
        f.write("| %s | %s | %s | %s %s | %s |\n" % (sid, meta.get("round", 1), (meta.get("summary") or "")[:150].replace("|", "/"), "**caught**" if own.get("exit") == 1 else "MISSED", ", ".join(own.get("violation_signatures", [])[:2]), others))
print(len(rows), "rows,", caught, "caught by own check")
