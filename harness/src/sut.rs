//! The system under test: a real `CacheD<u64, u64>` built from /repo with the hooks on, plus helpers
//! that only use its public API and the `verif` accessors.
use std::collections::HashMap;
use std::panic::{catch_unwind, AssertUnwindSafe};
use std::sync::atomic::Ordering;
use std::sync::Arc;
use std::time::Duration;

use tinylfu_cached::cache::cached::CacheD;
use tinylfu_cached::cache::command::acknowledgement::CommandAcknowledgement;
use tinylfu_cached::cache::command::command_executor::CommandSendResult;
use tinylfu_cached::cache::command::{CommandStatus, RejectionReason};
use tinylfu_cached::cache::config::ConfigBuilder;
use tinylfu_cached::cache::put_or_update::PutOrUpdateRequestBuilder;
use tinylfu_cached::cache::stats::StatsType;
use tinylfu_cached::cache::verif::{Role, Snapshot};

use crate::rt::{self, recorder, role_index, ThreadMarks, VClock, Waited};
use crate::util::J;

#[cfg(not(feature = "typed"))]
pub type Cache = CacheD<u64, u64>;
#[cfg(not(feature = "typed"))]
pub type K = u64;
#[cfg(not(feature = "typed"))]
pub type V = u64;
#[cfg(not(feature = "typed"))]
pub fn mk_key(id: u64) -> K { id }
#[cfg(not(feature = "typed"))]
pub fn mk_val(token: u64) -> V { token }
#[cfg(not(feature = "typed"))]
pub fn tok(value: &V) -> u64 { *value }
#[cfg(not(feature = "typed"))]
fn new_cache(config: tinylfu_cached::cache::config::Config<K, V>) -> Cache { CacheD::new(config) }

// the typed flavours (see typed.rs): a real CacheD<TKey, TVal> behind the same u64 surface
#[cfg(feature = "typed")]
pub use crate::typed::Cache;
#[cfg(feature = "typed")]
pub type K = crate::typed::TKey;
#[cfg(feature = "typed")]
pub type V = crate::typed::TVal;
#[cfg(feature = "typed")]
pub fn mk_key(id: u64) -> K { crate::typed::TKey::of(id) }
#[cfg(feature = "typed")]
pub fn mk_val(token: u64) -> V { crate::typed::TVal::of(token) }
#[cfg(feature = "typed")]
pub fn tok(value: &V) -> u64 { value.token() }
#[cfg(feature = "typed")]
fn new_cache(config: tinylfu_cached::cache::config::Config<K, V>) -> Cache { Cache::new(config) }
#[cfg(feature = "typed")]
#[allow(dead_code)]
fn unused_import() { let _ = std::mem::size_of::<CacheD<u64, u64>>(); }

#[derive(Clone, Copy, Debug, PartialEq, Eq)]
pub enum WeightMode {
    /// the crate's own `Calculation::perform`
    Default,
    /// weight = (token counter % 9) + 1, + 24 when a TTL is specified
    Custom,
}

#[derive(Clone, Copy, Debug, PartialEq, Eq)]
pub enum HashMode {
    Default,
    /// every key hashes to 42 (all keys collide in the sketch)
    Constant,
}

#[derive(Clone, Debug)]
pub struct SutCfg {
    pub counters: u64,
    pub capacity: usize,
    pub max_weight: i64,
    pub shards: usize,
    pub cmd_buf: usize,
    pub pool: usize,
    pub buf: usize,
    pub tick: Duration,
    pub weight_mode: WeightMode,
    pub hash_mode: HashMode,
    pub start_ns: u64,
}

impl SutCfg {
    pub fn small() -> Self {
        SutCfg {
            counters: 100, capacity: 16, max_weight: 100_000, shards: 2, cmd_buf: 8, pool: 1, buf: 2,
            tick: Duration::from_millis(1), weight_mode: WeightMode::Default, hash_mode: HashMode::Default,
            start_ns: rt::START_NS,
        }
    }
    pub fn to_json(&self) -> J {
        J::obj()
            .with("counters", J::Int(self.counters as i128)).with("capacity", J::u(self.capacity))
            .with("max_weight", J::Int(self.max_weight as i128)).with("shards", J::u(self.shards))
            .with("cmd_buf", J::u(self.cmd_buf)).with("pool", J::u(self.pool)).with("buf", J::u(self.buf))
            .with("tick_us", J::Int(self.tick.as_micros() as i128))
            .with("weight_mode", J::s(format!("{:?}", self.weight_mode))).with("hash_mode", J::s(format!("{:?}", self.hash_mode)))
    }
}

pub const TTL_ENTRY: i64 = 24;
/// `Calculation::perform` for u64 keys and values: 8 + 8 + size_of::<WeightedKey<u64>>() (= 24), + 24 with a TTL.
pub const DEFAULT_WEIGHT: i64 = 40;

pub fn token(key: u64, writer: u64, counter: u64) -> u64 { (key << 40) | ((writer & 0xff) << 32) | (counter & 0xffff_ffff) }
pub fn token_key(token: u64) -> u64 { token >> 40 }

pub fn computed_weight(mode: WeightMode, value: u64, with_ttl: bool) -> i64 {
    match mode {
        WeightMode::Default => DEFAULT_WEIGHT + if with_ttl { TTL_ENTRY } else { 0 },
        // the custom function charges 7 for a time-to-live, not the 24 of the default one: what a request with a value is charged is
        // whatever the configured function says
        WeightMode::Custom => ((value & 0xffff_ffff) % 9) as i64 + 1 + if with_ttl { 7 } else { 0 },
    }
}

/// Builds a real cache for `cfg` under a fresh harness clock; installs nothing (usable in sanitizer / Miri runs).
pub fn build_cache(cfg: &SutCfg) -> (Arc<Cache>, VClock) {
    let clock = VClock::at(cfg.start_ns);
    let mut builder = ConfigBuilder::new(cfg.counters, cfg.capacity, cfg.max_weight)
        .shards(cfg.shards)
        .command_buffer_size(cfg.cmd_buf)
        .access_pool_size(cfg.pool)
        .access_buffer_size(cfg.buf)
        .ttl_tick_duration(cfg.tick)
        .clock(Box::new(clock.clone()));
    if cfg.weight_mode == WeightMode::Custom {
        builder = builder.weight_calculation_fn(Box::new(|_key: &K, value: &V, with_ttl| computed_weight(WeightMode::Custom, tok(value), with_ttl)));
    }
    // `big` flavour: the value carries an inline page, so the crate's own calculation would answer tens of thousands; the scenarios' capacity
    // arithmetic assumes the 40 / 64 of a u64 pair, which is what this function answers (the crate's calculation is exercised by the other flavours)
    #[cfg(feature = "big")]
    if cfg.weight_mode == WeightMode::Default {
        builder = builder.weight_calculation_fn(Box::new(|_key: &K, _value: &V, with_ttl| computed_weight(WeightMode::Default, 0, with_ttl)));
    }
    if cfg.hash_mode == HashMode::Constant {
        builder = builder.key_hash_fn(Box::new(|_key: &K| 42));
    }
    // every second cache of the process gets its public configuration fields (clock, cache weight, counters, queue size, the two functions)
    // assigned AFTER build(), the builder having been given throw-away values: both ways of configuring must give the same cache
    static BUILT: std::sync::atomic::AtomicU64 = std::sync::atomic::AtomicU64::new(0);
    if BUILT.fetch_add(1, std::sync::atomic::Ordering::Relaxed) % 2 == 1 {
        let mut late = ConfigBuilder::new(cfg.counters + 5, cfg.capacity, cfg.max_weight / 2 + 1000)
            .shards(cfg.shards).command_buffer_size(cfg.cmd_buf + 3).access_pool_size(cfg.pool).access_buffer_size(cfg.buf).ttl_tick_duration(cfg.tick)
            .clock(Box::new(VClock::at(cfg.start_ns + 777_000_000_000)))
            .build();
        late.clock = Box::new(clock.clone());
        late.total_cache_weight = cfg.max_weight;
        late.counters = cfg.counters;
        late.command_buffer_size = cfg.cmd_buf;
        if cfg.weight_mode == WeightMode::Custom { late.weight_calculation_fn = Box::new(|_key: &K, value: &V, with_ttl| computed_weight(WeightMode::Custom, tok(value), with_ttl)); }
        #[cfg(feature = "big")]
        if cfg.weight_mode == WeightMode::Default { late.weight_calculation_fn = Box::new(|_key: &K, _value: &V, with_ttl| computed_weight(WeightMode::Default, 0, with_ttl)); }
        if cfg.hash_mode == HashMode::Constant { late.key_hash_fn = Box::new(|_key: &K| 42); }
        return (Arc::new(new_cache(late)), clock);
    }
    let cache = Arc::new(new_cache(builder.build()));
    (cache, clock)
}

pub static LIVE_THREADS_AT_CASE_START: std::sync::atomic::AtomicU64 = std::sync::atomic::AtomicU64::new(0);

pub struct Sut {
    pub cache: Arc<Cache>,
    pub clock: VClock,
    pub cfg: SutCfg,
    pub marks: ThreadMarks,
    pub sweeps_at_last_clock_change: std::sync::atomic::AtomicU64,
    pub applied_base: u64,
    pub sweeps_base: u64,
    pub sent_base: u64,
    pub completed_base: u64,
    pub failed_base: u64,
}

impl Sut {
    pub fn new(cfg: SutCfg) -> Sut {
        let _ = recorder();
        let _ = rt::sched();
        let marks = rt::thread_marks();
        recorder().weight_last.store(0, Ordering::SeqCst);
        let applied_base = recorder().applied.load(Ordering::SeqCst);
        let sweeps_base = recorder().sweeps();
        let sent_base = recorder().sent.load(Ordering::SeqCst);
        let completed_base = recorder().completed.load(Ordering::SeqCst);
        let failed_base = recorder().send_failed.load(Ordering::SeqCst);
        // diagnostics: no background thread of an earlier cache may be alive now (immortal 1-hour sweepers excepted)
        for i in 0..2 {
            if marks.started[i] != marks.exited[i] { LIVE_THREADS_AT_CASE_START.fetch_add(1, Ordering::SeqCst); }
        }
        let (cache, clock) = build_cache(&cfg);
        // wait until the three background threads of this cache have announced themselves, so that exit accounting by
        // counts is exact (a thread that starts late would otherwise be attributed to the next cache)
        let _ = rt::wait_until("background threads of a new cache to start", || {
            (0..3).all(|i| recorder().started[i].load(Ordering::SeqCst) >= marks.started[i] + 1)
        });
        let sweeps = recorder().sweeps();
        Sut { cache, clock, cfg, marks, sweeps_at_last_clock_change: std::sync::atomic::AtomicU64::new(sweeps), applied_base, sweeps_base, sent_base, completed_base, failed_base }
    }

    pub fn now(&self) -> u64 { self.clock.ns() }

    pub fn advance(&self, delta_ns: u64) -> u64 {
        let now = self.clock.advance(delta_ns);
        self.sweeps_at_last_clock_change.store(recorder().sweeps(), Ordering::SeqCst);
        now
    }

    /// The clock is corrected backwards (a wall clock may be): legal for any implementation of the public Clock trait.
    pub fn step_back(&self, delta_ns: u64) -> u64 {
        let now = self.clock.0.fetch_sub(delta_ns, Ordering::SeqCst) - delta_ns;
        self.sweeps_at_last_clock_change.store(recorder().sweeps(), Ordering::SeqCst);
        now
    }

    pub fn sweeper_runs(&self) -> bool { self.cfg.tick < Duration::from_secs(60) }

    /// Waits until two sweeps have completed since the last clock change (so at least one began after it).
    pub fn settle(&self) -> Result<(), Waited> {
        if !self.sweeper_runs() { return Ok(()); }
        let target = self.sweeps_at_last_clock_change.load(Ordering::SeqCst) + 2;
        let sweeper = role_index(Role::Sweeper);
        let marks = self.marks;
        rt::wait_until("two completed sweeps", || {
            recorder().sweeps() >= target || recorder().exited[sweeper].load(Ordering::SeqCst) > marks.exited[sweeper]
        })?;
        if recorder().exited[sweeper].load(Ordering::SeqCst) > marks.exited[sweeper] && recorder().sweeps() < target {
            return Err(Waited::WorkerDead);
        }
        Ok(())
    }

    /// Waits until two more sweeps have completed from now.
    pub fn settle_fresh(&self) -> Result<(), Waited> {
        self.sweeps_at_last_clock_change.store(recorder().sweeps(), Ordering::SeqCst);
        self.settle()
    }

    /// Waits until every queued command has been acknowledged and the access queue is drained (or a
    /// background thread of this cache has exited: the caller checks `background_exits`).
    pub fn quiesce(&self) -> Result<(), Waited> {
        let cache = self.cache.clone();
        let marks = self.marks;
        let any_exit = move || (0..3).any(|i| recorder().exited[i].load(Ordering::SeqCst) > marks.exited[i]);
        let (sent_base, completed_base, failed_base) = (self.sent_base, self.completed_base, self.failed_base);
        rt::wait_until("command and access queues to drain", || {
            let r = recorder();
            any_exit() || (r.sent.load(Ordering::SeqCst) - sent_base == (r.completed.load(Ordering::SeqCst) - completed_base) + (r.send_failed.load(Ordering::SeqCst) - failed_base)
                && cache.verif_command_queue_len() == 0
                && cache.verif_access_queue_len() == 0)
        })?;
        // the consumer may still be applying the batch it dequeued last: applied == AccessAdded says it is done
        let base_applied = self.applied_base;
        rt::wait_until("access batches to be applied", || {
            let added = cache.stats_summary().get(&StatsType::AccessAdded).unwrap_or(0);
            any_exit() || recorder().applied.load(Ordering::SeqCst).wrapping_sub(base_applied) >= added
        })
    }

    pub fn applied(&self) -> u64 { recorder().applied.load(Ordering::SeqCst).wrapping_sub(self.applied_base) }
    pub fn sweeps(&self) -> u64 { recorder().sweeps().wrapping_sub(self.sweeps_base) }

    pub fn snapshot(&self) -> Snapshot<u64> { self.cache.verif_snapshot() }

    pub fn stat(&self, stats_type: StatsType) -> u64 { self.cache.stats_summary().get(&stats_type).unwrap_or(0) }

    /// Shuts the cache down, waits for its consumer (and a running sweeper) to exit, then drops the cache —
    /// the command worker keeps answering `ShuttingDown` until the last sender is gone — and waits for the worker.
    pub fn finish(self) -> Result<(), Waited> {
        rt::sched().release_all();
        let Sut { cache, marks, cfg, .. } = self;
        cache.shutdown();
        let wait_sweeper = cfg.tick < Duration::from_secs(60);
        let exited_all = move |roles: &[Role]| {
            let r = recorder();
            roles.iter().all(|role| {
                let i = role_index(*role);
                r.exited[i].load(Ordering::SeqCst) - marks.exited[i] >= r.started[i].load(Ordering::SeqCst) - marks.started[i]
            })
        };
        rt::wait_until("consumer and sweeper to exit after shutdown", || {
            exited_all(&[Role::Consumer]) && (!wait_sweeper || exited_all(&[Role::Sweeper]))
        })?;
        // a helper thread of the case may still be on its way out with its clone of the cache
        if let Err(waited) = rt::wait_until("the other holders of the cache to let go of it", || Arc::strong_count(&cache) == 1) { rt::taint(); return Err(waited); }
        match Arc::try_unwrap(cache) {
            Ok(cache) => drop(cache),
            Err(_) => { rt::taint(); return Err(Waited::Inconclusive("cache still shared at the end of a history".into())); }
        }
        rt::wait_until("command worker to exit after the cache was dropped", || exited_all(&[Role::Worker]))
    }

    /// `finish`, unless a hang was already classified in this case: shutdown() would then block on the very locks that are
    /// stuck, so the cache (and its blocked threads) is deliberately leaked and the process moves on.
    pub fn finish_or_leak(self) -> Result<(), Waited> {
        if rt::aborted() {
            rt::sched().release_all();
            // (a leaked cache is never dropped, so its background threads never exit later and cannot be mistaken for those of another case)
            std::mem::forget(self.cache.clone());
            return Ok(());
        }
        self.finish()
    }

    pub fn worker_dead(&self) -> bool {
        let i = role_index(Role::Worker);
        recorder().exited[i].load(Ordering::SeqCst) > self.marks.exited[i]
    }

    pub fn background_panics(&self) -> Vec<Role> {
        let mut roles = Vec::new();
        for role in [Role::Worker, Role::Consumer, Role::Sweeper] {
            let i = role_index(role);
            if recorder().panicked[i].load(Ordering::SeqCst) > self.marks.panicked[i] { roles.push(role); }
        }
        roles
    }

    pub fn background_exits(&self) -> Vec<Role> {
        let mut roles = Vec::new();
        for role in [Role::Worker, Role::Consumer, Role::Sweeper] {
            let i = role_index(role);
            if recorder().exited[i].load(Ordering::SeqCst) > self.marks.exited[i] { roles.push(role); }
        }
        roles
    }
}

// ------------------------------------------------------------------------------------------------ API wrappers

#[derive(Clone, Debug, PartialEq)]
pub enum WriteOp {
    Put { key: u64, value: u64 },
    PutW { key: u64, value: u64, weight: i64 },
    PutTtl { key: u64, value: u64, ttl: Duration },
    PutWTtl { key: u64, value: u64, weight: i64, ttl: Duration },
    Upsert { key: u64, value: Option<u64>, weight: Option<i64>, ttl: Option<Duration>, remove_ttl: bool },
    Delete { key: u64 },
}

impl WriteOp {
    pub fn key(&self) -> u64 {
        match self {
            WriteOp::Put { key, .. } | WriteOp::PutW { key, .. } | WriteOp::PutTtl { key, .. } | WriteOp::PutWTtl { key, .. }
            | WriteOp::Upsert { key, .. } | WriteOp::Delete { key } => *key,
        }
    }
    pub fn is_put(&self) -> bool { matches!(self, WriteOp::Put { .. } | WriteOp::PutW { .. } | WriteOp::PutTtl { .. } | WriteOp::PutWTtl { .. }) }
    pub fn value(&self) -> Option<u64> {
        match self {
            WriteOp::Put { value, .. } | WriteOp::PutW { value, .. } | WriteOp::PutTtl { value, .. } | WriteOp::PutWTtl { value, .. } => Some(*value),
            WriteOp::Upsert { value, .. } => *value,
            WriteOp::Delete { .. } => None,
        }
    }
    pub fn ttl(&self) -> Option<Duration> {
        match self {
            WriteOp::PutTtl { ttl, .. } | WriteOp::PutWTtl { ttl, .. } => Some(*ttl),
            WriteOp::Upsert { ttl, .. } => *ttl,
            _ => None,
        }
    }
    pub fn name(&self) -> &'static str {
        match self {
            WriteOp::Put { .. } => "put", WriteOp::PutW { .. } => "put_with_weight", WriteOp::PutTtl { .. } => "put_with_ttl",
            WriteOp::PutWTtl { .. } => "put_with_weight_and_ttl", WriteOp::Upsert { .. } => "put_or_update", WriteOp::Delete { .. } => "delete",
        }
    }
    /// Shape of an upsert request: which of value/weight/ttl/remove_ttl are present, e.g. "v-w-t" / "r".
    pub fn shape(&self) -> String {
        match self {
            WriteOp::Upsert { value, weight, ttl, remove_ttl, .. } => {
                let mut parts = Vec::new();
                if value.is_some() { parts.push("v"); }
                if weight.is_some() { parts.push("w"); }
                if ttl.is_some() { parts.push("t"); }
                if *remove_ttl { parts.push("r"); }
                format!("upsert[{}]", parts.join("+"))
            }
            other => other.name().to_string(),
        }
    }
    pub fn to_json(&self) -> J {
        let mut o = J::obj().with("op", J::s(self.name())).with("key", J::Int(self.key() as i128));
        match self {
            WriteOp::Put { value, .. } => { o.set("value", J::Int(*value as i128)); }
            WriteOp::PutW { value, weight, .. } => { o.set("value", J::Int(*value as i128)); o.set("weight", J::Int(*weight as i128)); }
            WriteOp::PutTtl { value, ttl, .. } => { o.set("value", J::Int(*value as i128)); o.set("ttl_ns", J::Int(ttl.as_nanos() as i128)); }
            WriteOp::PutWTtl { value, weight, ttl, .. } => {
                o.set("value", J::Int(*value as i128)); o.set("weight", J::Int(*weight as i128)); o.set("ttl_ns", J::Int(ttl.as_nanos() as i128));
            }
            WriteOp::Upsert { value, weight, ttl, remove_ttl, .. } => {
                if let Some(value) = value { o.set("value", J::Int(*value as i128)); }
                if let Some(weight) = weight { o.set("weight", J::Int(*weight as i128)); }
                if let Some(ttl) = ttl { o.set("ttl_ns", J::Int(ttl.as_nanos() as i128)); }
                if *remove_ttl { o.set("remove_ttl", J::Bool(true)); }
            }
            WriteOp::Delete { .. } => {}
        }
        o
    }
}

pub enum Issued {
    Ack(Arc<CommandAcknowledgement>, u64),
    SendError(String),
    Panicked(String),
}

pub fn panic_message(payload: Box<dyn std::any::Any + Send>) -> String {
    if let Some(s) = payload.downcast_ref::<&str>() { s.to_string() }
    else if let Some(s) = payload.downcast_ref::<String>() { s.clone() }
    else { "non-string panic payload".to_string() }
}

/// Issues a write through the public API, catching a panic in the caller; returns the acknowledgement and
/// the uid of the command it queued (0 if it was answered on the spot).
pub fn issue(cache: &Cache, op: &WriteOp) -> Issued {
    rt::clear_last_sent();
    let result: Result<CommandSendResult, _> = catch_unwind(AssertUnwindSafe(|| match op {
        WriteOp::Put { key, value } => cache.put(*key, *value),
        WriteOp::PutW { key, value, weight } => cache.put_with_weight(*key, *value, *weight),
        WriteOp::PutTtl { key, value, ttl } => cache.put_with_ttl(*key, *value, *ttl),
        WriteOp::PutWTtl { key, value, weight, ttl } => cache.put_with_weight_and_ttl(*key, *value, *weight, *ttl),
        WriteOp::Upsert { key, value, weight, ttl, remove_ttl } => {
            // the setters of the request builder are called in varying order (derived from the value), and now and then a provisional value is
            // set first and overridden: what is built must be the same request
            let mut builder = PutOrUpdateRequestBuilder::new(mk_key(*key));
            let order = value.unwrap_or(*key) % 3;
            if order == 2 { if let Some(value) = value { builder = builder.value(mk_val(value ^ 0x5a5a)).value(mk_val(*value)); } }
            if order == 0 { if let Some(value) = value { builder = builder.value(mk_val(*value)); } }
            if let Some(weight) = weight { builder = builder.weight(*weight); }
            if let Some(ttl) = ttl { builder = builder.time_to_live(*ttl); }
            if *remove_ttl { builder = builder.remove_time_to_live(); }
            if order == 1 { if let Some(value) = value { builder = builder.value(mk_val(*value)); } }
            cache.put_or_update(builder.build())
        }
        WriteOp::Delete { key } => cache.delete(*key),
    }));
    match result {
        Ok(Ok(ack)) => Issued::Ack(ack, rt::last_sent()),
        Ok(Err(error)) => Issued::SendError(format!("{}", error)),
        Err(payload) => Issued::Panicked(panic_message(payload)),
    }
}

pub const READ_VARIANTS: [&str; 7] = ["get", "get_ref", "map_get", "map_get_ref", "multi_get", "multi_get_iterator", "multi_get_map_iterator"];

/// Reads one key through the given read variant (0..7). The `get_ref` guard is dropped before returning.
pub fn read(cache: &Cache, variant: usize, key: u64) -> Option<u64> {
    match variant % 7 {
        0 => cache.get(&key),
        1 => cache.get_ref(&key).map(|r| tok(r.value().value_ref())),
        2 => cache.map_get(&key, |v| v ^ 0x5555).map(|v| v ^ 0x5555),
        3 => cache.map_get_ref(&key, |stored| tok(&stored.value())),
        4 => cache.multi_get(vec![&key]).remove(&key).flatten(),
        5 => cache.multi_get_iterator(vec![&key]).next().flatten(),
        _ => cache.multi_get_map_iterator(vec![&key], |v| v.wrapping_add(1)).next().flatten().map(|v| v.wrapping_sub(1)),
    }
}

/// Reads several keys through a multi-key variant (0 = multi_get, 1 = iterator, 2 = map iterator), in key order.
pub fn read_multi(cache: &Cache, variant: usize, keys: &[u64]) -> Vec<Option<u64>> {
    let refs: Vec<&u64> = keys.iter().collect();
    match variant % 3 {
        0 => {
            // the result is a map: a key asked for twice appears once; every requested position is answered from it
            let map: HashMap<&u64, Option<u64>> = cache.multi_get(refs);
            keys.iter().map(|k| map.get(k).copied().flatten()).collect()
        }
        1 => {
            let mut out: Vec<Option<u64>> = cache.multi_get_iterator(refs).collect();
            out.resize(keys.len(), None);
            out
        }
        _ => {
            let mut out: Vec<Option<u64>> = cache.multi_get_map_iterator(refs, |v| v).collect();
            out.resize(keys.len(), None);
            out
        }
    }
}

/// Like `read_multi`, but the iterators' output is returned as produced (an iterator that yields fewer or more items than keys is visible).
pub fn read_multi_raw(cache: &Cache, variant: usize, keys: &[u64]) -> Vec<Option<u64>> {
    let refs: Vec<&u64> = keys.iter().collect();
    match variant % 3 {
        0 => read_multi(cache, 0, keys),
        1 => cache.multi_get_iterator(refs).collect(),
        _ => cache.multi_get_map_iterator(refs, |v| v).collect(),
    }
}

/// value and expiry (ns) as seen through `get_ref`
pub fn read_ref(cache: &Cache, key: u64) -> Option<(u64, Option<u128>)> {
    cache.get_ref(&key).map(|r| (tok(r.value().value_ref()), r.value().expire_after().map(rt::ns_of)))
}

pub fn status_name(status: &CommandStatus) -> String {
    match status {
        CommandStatus::Pending => "Pending".into(),
        CommandStatus::Accepted => "Accepted".into(),
        CommandStatus::ShuttingDown => "ShuttingDown".into(),
        CommandStatus::Rejected(reason) => format!("Rejected({})", reason_name(reason)),
    }
}

pub fn reason_name(reason: &RejectionReason) -> &'static str {
    match reason {
        RejectionReason::EnoughSpaceIsNotAvailableAndKeyFailedToEvictOthers => "NotEnoughSpace",
        RejectionReason::KeyWeightIsGreaterThanCacheWeight => "KeyWeightGreaterThanCacheWeight",
        RejectionReason::KeyDoesNotExist => "KeyDoesNotExist",
        RejectionReason::KeyAlreadyExists => "KeyAlreadyExists",
        _ => "Other",
    }
}

pub fn waited_name(waited: &Waited) -> String {
    match waited {
        Waited::Ready(status) => status_name(status),
        Waited::ReadyPending => "Ready(Pending)".into(),
        Waited::LostWakeup => "LostWakeup".into(),
        Waited::WorkerDead => "WorkerDead".into(),
        Waited::Deadlock(description) => format!("Deadlock({})", description),
        Waited::Inconclusive(description) => format!("Inconclusive({})", description),
    }
}
