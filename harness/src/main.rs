//! cvh — runtime-monitoring harness for tinylfu-cached. One process = one shard of one check.
//! Usage: cvh <engine> [--key value]...   (see /verif/check for how shards are combined)
mod util;
mod rt;
mod sut;
mod seq;
mod props;
mod conc;
mod conc2;
mod comp;
mod admission;
#[cfg(feature = "typed")]
mod typed;

use std::collections::HashMap;

pub struct Args(pub HashMap<String, String>);

impl Args {
    pub fn get(&self, key: &str) -> Option<&str> { self.0.get(key).map(|s| s.as_str()) }
    pub fn u64(&self, key: &str, default: u64) -> u64 { self.get(key).and_then(|v| v.parse().ok()).unwrap_or(default) }
    pub fn str(&self, key: &str, default: &str) -> String { self.get(key).unwrap_or(default).to_string() }
}

struct DiscardLogger;
impl log::Log for DiscardLogger {
    fn enabled(&self, _: &log::Metadata) -> bool { true }
    fn log(&self, record: &log::Record) {
        // the record is rendered (every Display / Debug implementation involved runs) into a writer that throws the text away
        struct Null;
        impl std::fmt::Write for Null { fn write_str(&mut self, _: &str) -> std::fmt::Result { Ok(()) } }
        let _ = std::fmt::write(&mut Null, *record.args());
        LOG_RECORDS.fetch_add(1, std::sync::atomic::Ordering::Relaxed);
    }
    fn flush(&self) {}
}
pub static LOG_RECORDS: std::sync::atomic::AtomicU64 = std::sync::atomic::AtomicU64::new(0);

fn main() {
    let argv: Vec<String> = std::env::args().collect();
    if argv.len() < 2 {
        eprintln!("usage: cvh <engine> [--key value]...");
        std::process::exit(2);
    }
    let engine = argv[1].clone();
    let mut map = HashMap::new();
    let mut i = 2;
    while i < argv.len() {
        if let Some(key) = argv[i].strip_prefix("--") {
            let value = argv.get(i + 1).cloned().unwrap_or_default();
            map.insert(key.to_string(), value);
            i += 2;
        } else { i += 1; }
    }
    let args = Args(map);
    // a logger that accepts every level and discards the record: the arguments of the crate's debug!/info! lines are then evaluated
    // (as they are in any deployment with logging switched on), so a side effect hidden in a log line shows in the monitors
    static SINK: DiscardLogger = DiscardLogger;
    // every second shard runs without a logger (the default of an application that never set one up): log arguments are then NOT evaluated
    if args.u64("from", 0) % 2 == 0 && log::set_logger(&SINK).is_ok() { log::set_max_level(log::LevelFilter::Trace); }
    // keep panics of the system under test out of the way: they are caught and classified by the monitors
    let verbose = args.get("verbose").is_some();
    std::panic::set_hook(Box::new(move |info| {
        let location = info.location().map(|l| (l.file().to_string(), l.line())).unwrap_or(("?".into(), 0));
        let message = if let Some(s) = info.payload().downcast_ref::<&str>() { s.to_string() }
            else if let Some(s) = info.payload().downcast_ref::<String>() { s.clone() } else { "non-string panic".to_string() };
        if verbose { eprintln!("panic at {}:{}: {}", location.0, location.1, message); }
        rt::record_panic(location.0, location.1, message);
    }));
    let result = props::dispatch(&engine, &args);
    let out = args.str("out", "");
    let text = result.render();
    if out.is_empty() { println!("{}", text); } else { std::fs::write(&out, text).expect("write shard output"); }
}
