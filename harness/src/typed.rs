//! The *typed* flavours of the harness (cargo features `typed` and `big`).
//!
//! The plain harness stores `u64` keys and values. Everything a cache does with a key or a value — hashing it, comparing it, cloning it,
//! dropping it, moving it through the command queue — is then free, instantaneous and without side effects, so a defect that only shows
//! with a costly `Hash`, an observable `Clone` / `Drop` or a large inline value is out of reach. In these flavours `sut::Cache` is a thin
//! wrapper over a real `CacheD<TKey, TVal>` that keeps the `u64` surface the scenarios and oracles are written against, so that every
//! engine (S-mode histories, C-mode scenarios, offline checkers) runs unchanged over heap-owning keys and values whose trait
//! implementations are **user-code schedule points** (seeded yields / bounded spins / short sleeps inside `Hash::hash`, `PartialEq::eq`,
//! `Clone::clone` and `Drop::drop`, i.e. in the middle of DashMap calls and between two adjacent calls where the crate has no hook),
//! **self-checking** (a value read back must carry the checksum and the payload of its token; a key's name must match its id) and
//! **counted** (created / cloned / dropped instances: the ledger).
//!
//! `typed`: `TKey` and `TVal` are one pointer wide (a `Box`), so `Calculation::perform` gives the same 40 / 64 units as for `u64` and every
//! scenario's capacity arithmetic holds unchanged. `big`: the value additionally carries an inline page of 40 KiB (it is moved by value
//! through the queue and into the store on the command worker's stack); the default weight function is replaced by one that answers 40 / 64.
use std::collections::HashMap;
use std::hash::{Hash, Hasher};
use std::sync::atomic::{AtomicU64, Ordering};
use std::sync::Mutex;
use std::time::{Duration, Instant};

use tinylfu_cached::cache::cached::CacheD;
use tinylfu_cached::cache::command::command_executor::CommandSendResult;
use tinylfu_cached::cache::config::Config;
use tinylfu_cached::cache::put_or_update::PutOrUpdateRequest;
use tinylfu_cached::cache::stats::StatsSummary;
use tinylfu_cached::cache::store::key_value_ref::KeyValueRef;
use tinylfu_cached::cache::store::stored_value::StoredValue;
use tinylfu_cached::cache::types::{FrequencyEstimate, KeyHash, Weight};
use tinylfu_cached::cache::verif::Snapshot;

// ------------------------------------------------------------------------------------------------ ledger and user-code schedule points

pub struct Ledger {
    pub values_created: AtomicU64,
    pub values_cloned: AtomicU64,
    pub values_dropped: AtomicU64,
    pub keys_created: AtomicU64,
    pub keys_cloned: AtomicU64,
    pub keys_dropped: AtomicU64,
    pub hashes: AtomicU64,
    pub eqs: AtomicU64,
    pub injected: AtomicU64,
    pub integrity_checks: AtomicU64,
    pub integrity_failures: Mutex<Vec<String>>,
    pub cases_by_user_delay: [AtomicU64; 6],
}

pub static LEDGER: Ledger = Ledger {
    values_created: AtomicU64::new(0), values_cloned: AtomicU64::new(0), values_dropped: AtomicU64::new(0),
    keys_created: AtomicU64::new(0), keys_cloned: AtomicU64::new(0), keys_dropped: AtomicU64::new(0),
    hashes: AtomicU64::new(0), eqs: AtomicU64::new(0), injected: AtomicU64::new(0), integrity_checks: AtomicU64::new(0),
    integrity_failures: Mutex::new(Vec::new()),
    cases_by_user_delay: [AtomicU64::new(0), AtomicU64::new(0), AtomicU64::new(0), AtomicU64::new(0), AtomicU64::new(0), AtomicU64::new(0)],
};

/// per-mille probability that one execution of a user trait method (hash / eq / clone / drop) is perturbed; 0 = off
pub static USER_P: AtomicU64 = AtomicU64::new(0);
static USER_SEED: AtomicU64 = AtomicU64::new(1);

pub fn set_user_perturbation(seed: u64, per_mille: u64) {
    USER_SEED.store(seed | 1, Ordering::Relaxed);
    USER_P.store(per_mille, Ordering::Relaxed);
}

thread_local! {
    static URNG: std::cell::Cell<u64> = std::cell::Cell::new(0);
}

#[derive(Clone, Copy)]
enum UserSite { Hash, Eq, KeyClone, ValueClone, ValueDrop }

/// A schedule point inside user code. `Eq`, `Clone` and `Drop` can run while the crate holds a DashMap shard lock, so every delay is
/// bounded and short (a yield, a spin of at most 60 us, now and then a sleep of at most 250 us): this is what a costly user type does.
fn user_point(site: UserSite) {
    let p = USER_P.load(Ordering::Relaxed);
    if p == 0 { return; }
    let draw = URNG.with(|state| {
        let mut value = state.get();
        if value == 0 { value = USER_SEED.load(Ordering::Relaxed) ^ crate::rt::tid().wrapping_mul(0xD6E8_FEB8_6659_FD93) | 1; }
        value ^= value << 13;
        value ^= value >> 7;
        value ^= value << 17;
        state.set(value);
        value
    });
    if draw % 1000 >= p { return; }
    LEDGER.injected.fetch_add(1, Ordering::Relaxed);
    let kind = (draw >> 12) % 16;
    let salt = site as u64;
    if kind < 6 {
        std::thread::yield_now();
    } else if kind < 15 {
        let spin_us = 1 + ((draw >> 24) + salt) % 60;
        let started = Instant::now();
        while started.elapsed() < Duration::from_micros(spin_us) { std::hint::spin_loop(); }
    } else {
        std::thread::sleep(Duration::from_micros(50 + (draw >> 24) % 200));
    }
}

fn integrity_failure(what: String) {
    if let Ok(mut failures) = LEDGER.integrity_failures.lock() { if failures.len() < 20 { failures.push(what); } }
}

pub fn take_integrity_failures() -> Vec<String> { LEDGER.integrity_failures.lock().map(|mut f| std::mem::take(&mut *f)).unwrap_or_default() }

/// values alive right now (created + cloned - dropped)
pub fn live_values() -> i64 {
    let l = &LEDGER;
    (l.values_created.load(Ordering::SeqCst) + l.values_cloned.load(Ordering::SeqCst)) as i64 - l.values_dropped.load(Ordering::SeqCst) as i64
}

pub fn ledger_counts(counts: &mut crate::util::Counts) {
    let l = &LEDGER;
    let alive = live_values().max(0) as u64;
    counts.add("typed_values_created", l.values_created.swap(0, Ordering::SeqCst));
    counts.add("typed_values_cloned", l.values_cloned.swap(0, Ordering::SeqCst));
    counts.add("typed_values_dropped", l.values_dropped.swap(0, Ordering::SeqCst));
    counts.add("typed_keys_cloned", l.keys_cloned.swap(0, Ordering::SeqCst));
    counts.add("typed_key_hash_calls", l.hashes.swap(0, Ordering::SeqCst));
    counts.add("typed_key_eq_calls", l.eqs.swap(0, Ordering::SeqCst));
    counts.add("typed_delays_injected_inside_user_code", l.injected.swap(0, Ordering::SeqCst));
    counts.add("typed_value_integrity_checks", l.integrity_checks.swap(0, Ordering::SeqCst));
    counts.add("typed_values_alive_at_shard_end", alive);
    let with_delays: u64 = l.cases_by_user_delay[2..].iter().map(|c| c.swap(0, Ordering::SeqCst)).sum();
    counts.add("typed_cases_with_delays_inside_user_code", with_delays);
    counts.add(if cfg!(feature = "big") { "typed_cases_with_40KiB_inline_values" } else { "typed_cases_with_boxed_keys_and_values" },
        with_delays + l.cases_by_user_delay[0].swap(0, Ordering::SeqCst) + l.cases_by_user_delay[1].swap(0, Ordering::SeqCst));
}

/// value instances that were alive when the case began (owned by caches of earlier cases that were leaked after a classified hang)
static CASE_BASE: std::sync::atomic::AtomicI64 = std::sync::atomic::AtomicI64::new(0);

/// How many value instances are alive beyond those of earlier cases and the `stored` entries the cache holds now. At a quiescent point
/// (nothing queued, every acknowledgement resolved, no reader) the harness itself owns none, so a positive number is a value the cache
/// still owns without storing it.
pub fn retained(stored: usize) -> i64 { live_values() - CASE_BASE.load(Ordering::SeqCst) - stored as i64 }

/// Called before every case: how often user code is perturbed in this case (derived from seed and index, so that a replay draws the same).
pub fn begin_case(seed: u64, index: u64) {
    CASE_BASE.store(live_values(), Ordering::SeqCst);
    let draw = crate::util::mix(crate::util::mix(seed, index), 0x7E9D);
    let per_mille = [0u64, 0, 10, 40, 120, 350][(draw % 6) as usize];
    set_user_perturbation(draw >> 8, per_mille);
    LEDGER.cases_by_user_delay[(draw % 6) as usize].fetch_add(1, Ordering::Relaxed);
}

/// Called after every case: a value or key that failed its own consistency check is a foreign / corrupted value (C02).
pub fn end_case(engine: &str, scenario: &str, focus: &'static str, seed: u64, index: u64) -> Vec<crate::seq::Finding> {
    set_user_perturbation(1, 0);
    let failures = take_integrity_failures();
    if failures.is_empty() { return Vec::new(); }
    let witness = crate::util::J::obj().with("engine", crate::util::J::s(engine)).with("scenario", crate::util::J::s(scenario)).with("focus", crate::util::J::s(focus))
        .with("seed", crate::util::J::Int(seed as i128)).with("index", crate::util::J::Int(index as i128));
    vec![crate::seq::Finding { props: vec!["C02"], signature: "C02/value-failed-its-own-consistency-check/typed".into(),
        detail: format!("{} (and {} more)", failures[0], failures.len() - 1), witness, inconclusive: false }]
}

// ------------------------------------------------------------------------------------------------ the key type

#[derive(Debug)]
pub struct KeyInner { pub name: String, pub id: u64 }

/// A heap-owning key, one pointer wide. Equality compares the name (a string comparison), hashing feeds the name and the id.
#[derive(Debug)]
pub struct TKey(Box<KeyInner>);

fn key_name(id: u64) -> String { format!("tenant-{:03}/object-{}", id % 7, id) }

/// Key names compare without regard to case, and every second key the harness builds spells its name in upper case: the key a caller
/// passes is *equal* to the stored one but hardly ever *identical* to it (as with normalised paths, host names, e-mail addresses).
static SPELLING: AtomicU64 = AtomicU64::new(0);

impl TKey {
    pub fn of(id: u64) -> TKey {
        LEDGER.keys_created.fetch_add(1, Ordering::Relaxed);
        let name = if SPELLING.fetch_add(1, Ordering::Relaxed) % 2 == 1 { key_name(id).to_ascii_uppercase() } else { key_name(id) };
        TKey(Box::new(KeyInner { name, id }))
    }
    /// the id, after checking that the name still belongs to it
    pub fn id(&self) -> u64 {
        if !self.0.name.eq_ignore_ascii_case(&key_name(self.0.id)) { integrity_failure(format!("key id {} carries the name {:?}", self.0.id, self.0.name)); }
        self.0.id
    }
}

impl Hash for TKey {
    fn hash<H: Hasher>(&self, state: &mut H) {
        LEDGER.hashes.fetch_add(1, Ordering::Relaxed);
        user_point(UserSite::Hash);
        // consistent with Eq: the spelling does not enter the hash
        for byte in self.0.name.bytes() { state.write_u8(byte.to_ascii_lowercase()); }
        self.0.id.hash(state);
    }
}

impl PartialEq for TKey {
    fn eq(&self, other: &TKey) -> bool {
        LEDGER.eqs.fetch_add(1, Ordering::Relaxed);
        user_point(UserSite::Eq);
        self.0.name.eq_ignore_ascii_case(&other.0.name)
    }
}

impl Eq for TKey {}

impl Clone for TKey {
    fn clone(&self) -> TKey {
        LEDGER.keys_cloned.fetch_add(1, Ordering::Relaxed);
        user_point(UserSite::KeyClone);
        TKey(Box::new(KeyInner { name: self.0.name.clone(), id: self.0.id }))
    }
}

impl Drop for TKey {
    fn drop(&mut self) { LEDGER.keys_dropped.fetch_add(1, Ordering::Relaxed); }
}

// ------------------------------------------------------------------------------------------------ the value type

#[cfg(feature = "big")]
pub const PAGE: usize = 40 * 1024;

pub struct ValInner { token: u64, check: u64, payload: Vec<u8> }

/// A heap-owning value: the harness token, a checksum over it and a payload derived from it. `big`: plus an inline page.
pub struct TVal {
    inner: Box<ValInner>,
    #[cfg(feature = "big")]
    page: [u8; PAGE],
}

fn check_of(token: u64) -> u64 { crate::util::mix(token, 0x7A6C_5E4D_3B2A_1908) }
fn payload_of(token: u64) -> Vec<u8> { let n = (token % 48) as usize; (0..n).map(|i| (token as u8).wrapping_add(i as u8)).collect() }

impl TVal {
    pub fn of(token: u64) -> TVal {
        LEDGER.values_created.fetch_add(1, Ordering::Relaxed);
        TVal {
            inner: Box::new(ValInner { token, check: check_of(token), payload: payload_of(token) }),
            #[cfg(feature = "big")]
            page: [token as u8; PAGE],
        }
    }
    /// the token, after checking that checksum, payload (and page) are the ones that were written with it
    pub fn token(&self) -> u64 {
        LEDGER.integrity_checks.fetch_add(1, Ordering::Relaxed);
        let token = self.inner.token;
        if self.inner.check != check_of(token) || self.inner.payload != payload_of(token) {
            integrity_failure(format!("value with token {:#x} carries a checksum / payload that was not written with it", token));
        }
        #[cfg(feature = "big")]
        if self.page[0] != token as u8 || self.page[PAGE - 1] != token as u8 || self.page[PAGE / 2] != token as u8 {
            integrity_failure(format!("value with token {:#x} carries a page that was not written with it", token));
        }
        token
    }
}

impl Clone for TVal {
    fn clone(&self) -> TVal {
        LEDGER.values_cloned.fetch_add(1, Ordering::Relaxed);
        user_point(UserSite::ValueClone);
        TVal {
            inner: Box::new(ValInner { token: self.inner.token, check: self.inner.check, payload: self.inner.payload.clone() }),
            #[cfg(feature = "big")]
            page: self.page,
        }
    }
}

impl Drop for TVal {
    fn drop(&mut self) {
        LEDGER.values_dropped.fetch_add(1, Ordering::Relaxed);
        user_point(UserSite::ValueDrop);
    }
}

pub fn value_token_of_stored(stored: &StoredValue<TVal>) -> u64 { stored.value_ref().token() }

// ------------------------------------------------------------------------------------------------ the cache with a u64 surface

pub struct Cache { inner: CacheD<TKey, TVal> }

/// An iterator that owns the keys its inner iterator borrows.
pub struct KeyedIter<'a, T> {
    iter: std::mem::ManuallyDrop<Box<dyn Iterator<Item = Option<T>> + 'a>>,
    keys: *mut Vec<TKey>,
}

impl<'a, T> Iterator for KeyedIter<'a, T> {
    type Item = Option<T>;
    fn next(&mut self) -> Option<Option<T>> { self.iter.next() }
}

impl<'a, T> Drop for KeyedIter<'a, T> {
    fn drop(&mut self) {
        // the iterator (which borrows the keys) goes first
        unsafe { std::mem::ManuallyDrop::drop(&mut self.iter); drop(Box::from_raw(self.keys)); }
    }
}

impl Cache {
    pub fn new(config: Config<TKey, TVal>) -> Cache { Cache { inner: CacheD::new(config) } }

    pub fn put(&self, key: u64, value: u64) -> CommandSendResult { self.inner.put(TKey::of(key), TVal::of(value)) }
    pub fn put_with_weight(&self, key: u64, value: u64, weight: Weight) -> CommandSendResult { self.inner.put_with_weight(TKey::of(key), TVal::of(value), weight) }
    pub fn put_with_ttl(&self, key: u64, value: u64, ttl: Duration) -> CommandSendResult { self.inner.put_with_ttl(TKey::of(key), TVal::of(value), ttl) }
    pub fn put_with_weight_and_ttl(&self, key: u64, value: u64, weight: Weight, ttl: Duration) -> CommandSendResult {
        self.inner.put_with_weight_and_ttl(TKey::of(key), TVal::of(value), weight, ttl)
    }
    pub fn put_or_update(&self, request: PutOrUpdateRequest<TKey, TVal>) -> CommandSendResult { self.inner.put_or_update(request) }
    pub fn delete(&self, key: u64) -> CommandSendResult { self.inner.delete(TKey::of(key)) }

    pub fn get(&self, key: &u64) -> Option<u64> { self.inner.get(&TKey::of(*key)).map(|value| value.token()) }
    pub fn get_ref(&self, key: &u64) -> Option<KeyValueRef<'_, TKey, StoredValue<TVal>>> { self.inner.get_ref(&TKey::of(*key)) }
    pub fn map_get<F, T>(&self, key: &u64, map_fn: F) -> Option<T> where F: Fn(u64) -> T {
        self.inner.map_get(&TKey::of(*key), |value: TVal| map_fn(value.token()))
    }
    pub fn map_get_ref<F, T>(&self, key: &u64, map_fn: F) -> Option<T> where F: Fn(&StoredValue<TVal>) -> T {
        self.inner.map_get_ref(&TKey::of(*key), map_fn)
    }
    pub fn multi_get<'a>(&self, keys: Vec<&'a u64>) -> HashMap<&'a u64, Option<u64>> {
        let typed: Vec<TKey> = keys.iter().map(|key| TKey::of(**key)).collect();
        let found = self.inner.multi_get(typed.iter().collect());
        let mut out = HashMap::new();
        // (after shutdown the crate answers with an empty map: so does this)
        for (position, key) in keys.iter().enumerate() {
            if let Some(entry) = found.get(&typed[position]) { out.insert(*key, entry.as_ref().map(|value| value.token())); }
        }
        out
    }
    pub fn multi_get_iterator<'a>(&'a self, keys: Vec<&'a u64>) -> KeyedIter<'a, u64> {
        let owned = Box::into_raw(Box::new(keys.iter().map(|key| TKey::of(**key)).collect::<Vec<TKey>>()));
        let refs: Vec<&'a TKey> = unsafe { (*owned).iter().collect() };
        let iter = self.inner.multi_get_iterator(refs).map(|item| item.map(|value| value.token()));
        KeyedIter { iter: std::mem::ManuallyDrop::new(Box::new(iter)), keys: owned }
    }
    pub fn multi_get_map_iterator<'a, F, T>(&'a self, keys: Vec<&'a u64>, map_fn: F) -> KeyedIter<'a, T> where F: Fn(u64) -> T + 'a, T: 'a {
        let owned = Box::into_raw(Box::new(keys.iter().map(|key| TKey::of(**key)).collect::<Vec<TKey>>()));
        let refs: Vec<&'a TKey> = unsafe { (*owned).iter().collect() };
        let iter = self.inner.multi_get_map_iterator(refs, move |value: TVal| map_fn(value.token()));
        KeyedIter { iter: std::mem::ManuallyDrop::new(Box::new(iter)), keys: owned }
    }

    pub fn total_weight_used(&self) -> Weight { self.inner.total_weight_used() }
    pub fn stats_summary(&self) -> StatsSummary { self.inner.stats_summary() }
    pub fn shutdown(&self) { self.inner.shutdown() }

    pub fn verif_snapshot(&self) -> Snapshot<u64> {
        let s = self.inner.verif_snapshot();
        Snapshot {
            weight_used: s.weight_used,
            max_weight: s.max_weight,
            charged: s.charged.iter().map(|(id, key, hash, weight)| (*id, key.id(), *hash, *weight)).collect(),
            stored: s.stored.iter().map(|(key, id, expiry, deleted)| (key.id(), *id, *expiry, *deleted)).collect(),
            ttl_index: s.ttl_index.clone(),
            buffered_hits: s.buffered_hits,
            command_queue_len: s.command_queue_len,
            access_queue_len: s.access_queue_len,
        }
    }
    pub fn verif_key_hash(&self, key: &u64) -> KeyHash { self.inner.verif_key_hash(&TKey::of(*key)) }
    pub fn verif_estimate(&self, key: &u64) -> FrequencyEstimate { self.inner.verif_estimate(&TKey::of(*key)) }
    pub fn verif_estimate_hash(&self, key_hash: KeyHash) -> FrequencyEstimate { self.inner.verif_estimate_hash(key_hash) }
    pub fn verif_charged_weight(&self, key_id: u64) -> Option<Weight> { self.inner.verif_charged_weight(key_id) }
    pub fn verif_buffered_hits(&self) -> usize { self.inner.verif_buffered_hits() }
    pub fn verif_command_queue_len(&self) -> usize { self.inner.verif_command_queue_len() }
    pub fn verif_access_queue_len(&self) -> usize { self.inner.verif_access_queue_len() }
    pub fn verif_sketch_total_increments(&self) -> u64 { self.inner.verif_sketch_total_increments() }
}
