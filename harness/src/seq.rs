//! S-mode: one owner client issues a generated history (every acknowledgement awaited) against a real
//! cache under the harness clock, in lock-step with a reference model of the *intended* semantics.
//! After every step: the operation's status and read-back, every key of the universe through a rotating
//! read variant, the structural snapshot, the statistics and the online weight invariant are compared.
//! Each failed clause is tagged with the properties it refutes and a signature naming clause, key state
//! and request shape.
use std::collections::{BTreeMap, BTreeSet, HashMap};
use std::sync::atomic::{AtomicBool, Ordering};
use std::sync::Arc;
use std::thread;
use std::time::Duration;

use tinylfu_cached::cache::command::{CommandStatus, RejectionReason};
use tinylfu_cached::cache::stats::StatsType;
use tinylfu_cached::cache::verif::{Event, Role, Site, WeightSite};

use crate::rt::{self, recorder, sched, Waited};
use crate::sut::*;
use crate::util::{fnv_step, Counts, Rng, J};

pub const NS: u64 = 1_000_000_000;

#[derive(Clone, Debug)]
pub struct Finding {
    pub props: Vec<&'static str>,
    pub signature: String,
    pub detail: String,
    pub witness: J,
    pub inconclusive: bool,
}

impl Finding {
    pub fn to_json(&self) -> J {
        J::obj()
            .with("props", J::Arr(self.props.iter().map(|p| J::s(*p)).collect()))
            .with("signature", J::s(self.signature.clone()))
            .with("detail", J::s(self.detail.clone()))
            .with("inconclusive", J::Bool(self.inconclusive))
            .with("witness", self.witness.clone())
    }
}

#[derive(Clone, Copy, Debug, PartialEq, Eq, Hash, PartialOrd, Ord)]
pub enum KeyState { Absent, Live, LiveTtl, ExpiredUnswept, SoftDeleted }

impl KeyState {
    pub fn name(&self) -> &'static str {
        match self {
            KeyState::Absent => "absent", KeyState::Live => "live", KeyState::LiveTtl => "live+ttl",
            KeyState::ExpiredUnswept => "expired-unswept", KeyState::SoftDeleted => "soft-deleted",
        }
    }
}

#[derive(Clone, Debug)]
pub struct MEntry {
    pub value: u64,
    pub weight: i64,
    pub expiry: Option<u128>,
    pub id: u64,
}

/// What the generator may produce on purpose although it is expected to hit a recorded finding.
#[derive(Clone, Copy, Debug, Default)]
pub struct Allow {
    pub put_on_expired: bool,
    pub upsert_on_expired: bool,
    pub upsert_on_soft_deleted: bool,
    pub overweight_update: bool,
    pub remove_ttl_small_weight: bool,
    pub ttl_overflow: bool,
    pub counters_one: bool,
}

impl Allow {
    pub fn all() -> Allow {
        Allow { put_on_expired: true, upsert_on_expired: true, upsert_on_soft_deleted: true, overweight_update: true,
            remove_ttl_small_weight: true, ttl_overflow: true, counters_one: true }
    }
}

#[derive(Clone, Debug)]
pub struct SeqCfg {
    pub focus: &'static str,
    pub seed: u64,
    pub index: u64,
    pub steps: usize,
    pub n_keys: u64,
    pub pressure: bool,
    pub noise_threads: usize,
    pub allow: Allow,
    pub sut: SutCfg,
    pub boundary_args: bool,
    /// only keys the model says are readable are ever read (all-hit workloads)
    pub hit_only: bool,
    /// per-key weight cap of the no-pressure flavour (the sum of the caps, plus TTL entries, fits the cache)
    pub cap: i64,
    /// do not judge charged weights (C03 looks at the *consequences* of wrong accounting: loss without pressure)
    pub lenient_weights: bool,
    /// keep the cache filled to its demanded maximum: every put carries the cap weight, upserts only add / change / remove a TTL
    pub saturate: bool,
}

#[derive(Clone, Debug)]
pub enum Step {
    Write(WriteOp),
    Read { key: u64, variant: usize },
    MultiRead { keys: Vec<u64>, variant: usize },
    Advance { delta_ns: u64 },
    FullCycle,
    /// delete(key) issued while the worker is held before executing it; reads (and optionally an upsert) happen in the window
    HeldDelete { key: u64, then: Option<WriteOp> },
    /// a multi-key iterator is created, yields its first item, then `write` (on a key not yet yielded) is issued and acknowledged, then the
    /// iterator is drained: every `next()` is a read of its own
    IterAcrossWrite { keys: Vec<u64>, variant: usize, write: WriteOp },
    /// like IterAcrossWrite, but between the first and the second item the clock passes the deadline of a key not yet yielded
    IterAcrossAdvance { keys: Vec<u64>, variant: usize, delta_ns: u64 },
}

impl Step {
    pub fn to_json(&self) -> J {
        match self {
            Step::Write(op) => op.to_json(),
            Step::Read { key, variant } => J::obj().with("op", J::s(READ_VARIANTS[*variant % 7])).with("key", J::Int(*key as i128)),
            Step::MultiRead { keys, variant } => J::obj().with("op", J::s(["multi_get", "multi_get_iterator", "multi_get_map_iterator"][*variant % 3]))
                .with("keys", J::Arr(keys.iter().map(|k| J::Int(*k as i128)).collect())),
            Step::Advance { delta_ns } => J::obj().with("op", J::s("advance_clock")).with("delta_ns", J::Int(*delta_ns as i128)),
            Step::FullCycle => J::obj().with("op", J::s("full_sweep_cycle")),
            Step::IterAcrossWrite { keys, variant, write } => J::obj().with("op", J::s(["multi_get_iterator", "multi_get_map_iterator"][*variant % 2]))
                .with("keys", J::Arr(keys.iter().map(|k| J::Int(*k as i128)).collect())).with("after_the_first_item", write.to_json()),
            Step::IterAcrossAdvance { keys, variant, delta_ns } => J::obj().with("op", J::s(["multi_get_iterator", "multi_get_map_iterator"][*variant % 2]))
                .with("keys", J::Arr(keys.iter().map(|k| J::Int(*k as i128)).collect())).with("clock_advanced_after_the_first_item_ns", J::Int(*delta_ns as i128)),
            Step::HeldDelete { key, then } => {
                let mut o = J::obj().with("op", J::s("delete_with_worker_held")).with("key", J::Int(*key as i128));
                if let Some(then) = then { o.set("then", then.to_json()); }
                o
            }
        }
    }
}

pub struct SeqOut {
    pub findings: Vec<Finding>,
    pub counts: Counts,
    pub signature: u64,
    pub critical: BTreeSet<String>,
    pub sample: J,
    pub steps_done: usize,
}

struct Run<'a> {
    cfg: &'a SeqCfg,
    sut: Sut,
    model: BTreeMap<u64, MEntry>,
    rng: Rng,
    findings: Vec<Finding>,
    counts: Counts,
    critical: BTreeSet<String>,
    history: Vec<J>,
    sig: u64,
    lookups: u64,
    admission_rejects: u64,
    token_counter: u64,
    read_rotation: usize,
    stop: bool,
    /// ids the model has seen for keys that are gone (deleted / evicted / swept): they must never come back
    dead_ids: BTreeSet<u64>,
    evictions_seen: u64,
    noise_on: bool,
    last_state: KeyState,
    panic_mark: usize,
    /// hook events taken early (by the end-to-end admission check) and still to be absorbed
    pending_events: Vec<rt::Rec>,
    /// keys that were past their time-to-live before a full sweep cycle began and are still held after it (owned by C10;
    /// other foci continue and name the state "expired-overdue" instead of "expired-unswept")
    overdue: BTreeMap<u64, (u64, u128)>,
    /// key -> (id, clock): a read returned the key's value while the clock stood exactly at its expiry
    deadline_witness: BTreeMap<u64, (u64, u128)>,
}

fn has(props: &[&'static str], p: &str) -> bool { props.iter().any(|x| *x == p) }

impl<'a> Run<'a> {
    fn now(&self) -> u64 { self.sut.now() }

    fn state(&self, key: u64) -> KeyState {
        match self.model.get(&key) {
            None => KeyState::Absent,
            Some(entry) => match entry.expiry {
                None => KeyState::Live,
                Some(expiry) => if (self.now() as u128) > expiry { KeyState::ExpiredUnswept } else { KeyState::LiveTtl },
            },
        }
    }

    /// like `KeyState::name`, but an expired key that has already survived a full sweep cycle is no longer merely "unswept"
    fn state_name(&self, key: u64, state: KeyState) -> &'static str {
        // only while the very same incarnation with the very same deadline is still held
        let same = match (self.overdue.get(&key), self.model.get(&key)) { (Some((id, expiry)), Some(entry)) => entry.id == *id && entry.expiry == Some(*expiry), _ => false };
        if state == KeyState::ExpiredUnswept && same { "expired-overdue" } else { state.name() }
    }

    fn readable(&self, key: u64) -> bool { matches!(self.state(key), KeyState::Live | KeyState::LiveTtl) }

    /// true when `now == expiry`: the statement leaves the instant of expiry itself open
    fn at_deadline(&self, key: u64) -> bool {
        self.model.get(&key).and_then(|e| e.expiry).map(|e| e == self.now() as u128).unwrap_or(false)
    }

    /// The instant `now == expiry` is left open by the statements (a read may return the value or absent), but the cache has to give ONE
    /// answer about it: once a read has returned the value at that clock reading, a sweep at the same clock reading must not evict the key.
    /// The probe only records what the read said; it is not judged for presence.
    fn probe_at_deadline(&mut self, key: u64) {
        if self.stop || !self.at_deadline(key) || self.cfg.hit_only { return; }
        let entry = match self.model.get(&key) { Some(e) => e.clone(), None => return };
        self.lookups += 1;
        let got = read(&self.sut.cache, 0, key);
        self.counts.inc("reads_at_the_exact_deadline");
        match got {
            Some(value) if value == entry.value => {
                // the id is learnt from the store (the model may not know it yet)
                let id = self.sut.snapshot().stored.iter().find(|e| e.0 == key).map(|e| e.1).unwrap_or(entry.id);
                self.deadline_witness.insert(key, (id, self.now() as u128));
                self.crit("value-returned-at-the-exact-deadline");
            }
            Some(value) => {
                self.fail(&["C02", "C03", "C08"], "C02/stale-value/get".into(), format!("get of key {} returned {:#x} at its deadline but its current value is {:#x}", key, value, entry.value));
            }
            None => { self.counts.inc("reads_at_the_exact_deadline_absent"); }
        }
    }

    fn model_total(&self) -> i128 { self.model.values().map(|e| e.weight as i128).sum() }

    fn fresh_token(&mut self, key: u64) -> u64 { self.token_counter += 1; token(key, 1, self.token_counter) }

    fn witness(&self) -> J {
        J::obj()
            .with("engine", J::s("seq"))
            .with("focus", J::s(self.cfg.focus))
            .with("seed", J::Int(self.cfg.seed as i128))
            .with("index", J::Int(self.cfg.index as i128))
            .with("config", self.cfg.sut.to_json())
            .with("pressure", J::Bool(self.cfg.pressure))
            .with("noise_threads", J::u(self.cfg.noise_threads))
            .with("clock_ns", J::Int(self.now() as i128))
            .with("history", J::Arr(self.history.clone()))
    }

    fn fail(&mut self, props: &[&'static str], signature: String, detail: String) {
        self.counts.inc(format!("finding:{}", signature));
        let finding = Finding { props: props.to_vec(), signature, detail, witness: self.witness(), inconclusive: false };
        self.findings.push(finding);
        self.stop = true;
    }

    fn inconclusive(&mut self, reason: String) {
        let finding = Finding { props: vec![self.cfg.focus], signature: format!("inconclusive/{}", reason), detail: reason, witness: self.witness(), inconclusive: true };
        self.findings.push(finding);
        self.stop = true;
    }

    fn crit(&mut self, what: &str) { self.critical.insert(what.to_string()); self.counts.inc(format!("critical:{}", what)); }

    // ------------------------------------------------------------------------------------ waiting on acks

    /// Awaits an acknowledgement; classifies abnormal outcomes as findings. Returns the status if it resolved.
    fn wait(&mut self, issued: Issued, op: &WriteOp, state: KeyState) -> Option<CommandStatus> {
        match issued {
            Issued::Panicked(message) => {
                let class = rt::panics_since(self.panic_mark).last().map(rt::panic_site).unwrap_or_else(|| rt::classify_panic(&message).to_string());
                self.fail(&["C17"], format!("C17/panic-in-caller/{}/{}/{}", op.shape(), state.name(), class),
                          format!("{} on a key in state {} panicked in the calling thread: {}", op.shape(), state.name(), message));
                None
            }
            Issued::SendError(error) => {
                if self.sut.worker_dead() {
                    self.fail(&["C17"], format!("C17/worker-dead/send-error/{}", op.shape()), format!("send failed because the command worker is gone: {}", error));
                } else {
                    self.fail(&["C13", "C17"], format!("C13/send-error-while-running/{}", op.shape()), format!("write returned an error while the cache is running: {}", error));
                }
                None
            }
            Issued::Ack(ack, uid) => {
                let waited = rt::await_ack(ack.handle(), uid, &self.sut.marks);
                if uid != 0 { recorder().forget_acked(uid); }
                match waited {
                    Waited::Ready(status) => Some(status),
                    Waited::ReadyPending => {
                        self.fail(&["C12"], "C12/ready-pending".into(), format!("awaiting {} yielded the placeholder status Pending", op.shape()));
                        None
                    }
                    Waited::LostWakeup => {
                        self.fail(&["C12"], "C12/lost-wakeup".into(), format!("{} was acknowledged but the polling task was never woken", op.shape()));
                        None
                    }
                    Waited::WorkerDead => {
                        let panicked = self.sut.background_panics().contains(&Role::Worker);
                        let site = rt::panics_since(self.panic_mark).last().map(rt::panic_site).unwrap_or_else(|| "no-panic".into());
                        let why = rt::panics_since(self.panic_mark).last().map(|p| format!("{}:{}: {}", p.file, p.line, p.message)).unwrap_or_default();
                        self.fail(&["C17", "C12"], format!("C17/worker-dead/{}/cmd={}/panicked={}", site, rt::last_command_kind(), panicked),
                                  format!("the command worker terminated while executing {} (key state {}): {}; its acknowledgement never completes", op.shape(), state.name(), why));
                        None
                    }
                    Waited::Deadlock(description) => {
                        self.fail(&["C18", "C12"], format!("C18/deadlock/await/{}", op.shape()), format!("every thread is blocked while awaiting {}: {}", op.shape(), description));
                        None
                    }
                    Waited::Inconclusive(reason) => { self.inconclusive(reason); None }
                }
            }
        }
    }

    fn stuck(&mut self, what: &str, waited: Waited) {
        match waited {
            Waited::Deadlock(description) if description.starts_with("access batches to be applied") => self.fail(&["C15", "C18"], "C15/handed-over-records-never-reach-the-sketch".into(), description),
            Waited::Deadlock(description) => self.fail(&["C18"], format!("C18/deadlock/{}", what), description),
            Waited::WorkerDead => {
                let roles = self.sut.background_panics();
                self.fail(&["C17"], format!("C17/background-thread-dead/{}/{:?}", what, roles), format!("a background thread exited while waiting for {}", what));
            }
            other => self.inconclusive(format!("{}: {}", what, waited_name(&other))),
        }
    }

    // ------------------------------------------------------------------------------------ reads

    /// Issues a read of `key` through `variant` and checks it against the model.
    fn checked_read(&mut self, key: u64, variant: usize, context: &str) {
        self.lookups += 1;
        let got = read(&self.sut.cache, variant, key);
        self.judge_read(key, got, READ_VARIANTS[variant % 7], context);
    }

    fn judge_read(&mut self, key: u64, got: Option<u64>, variant: &str, context: &str) {
        self.counts.inc(format!("reads:{}", variant));
        let state = self.state(key);
        let expected = self.model.get(&key).map(|e| e.value);
        match (state, got) {
            (KeyState::Live, Some(value)) | (KeyState::LiveTtl, Some(value)) => {
                self.counts.inc("reads_returned_value");
                if Some(value) != expected {
                    let kind = if token_key(value) != key { "foreign" } else { "stale" };
                    self.fail(&["C02", "C03", "C08"], format!("C02/{}-value/{}", kind, variant),
                              format!("{} of key {} returned {:#x} but its current value is {:#x} ({})", variant, key, value, expected.unwrap_or(0), context));
                }
                if state == KeyState::LiveTtl { self.counts.inc("reads_before_deadline"); }
            }
            (KeyState::Live, None) | (KeyState::LiveTtl, None) => {
                if self.cfg.pressure {
                    self.counts.inc("reads_absent_under_pressure");
                } else {
                    let props: &[&'static str] = if state == KeyState::LiveTtl { &["C03", "C09", "C10", "C08"] } else { &["C03", "C08", "C10"] };
                    self.fail(props, format!("C03/live-key-reads-absent/{}/{}", state.name(), variant),
                              format!("{} of key {} returned absent although it was accepted, not deleted, not expired and there is no memory pressure ({})", variant, key, context));
                }
            }
            (KeyState::ExpiredUnswept, Some(value)) => {
                self.fail(&["C09"], format!("C09/expired-value-served/{}", variant),
                          format!("{} of key {} returned {:#x} although the clock is past its expiry ({})", variant, key, value, context));
            }
            (KeyState::ExpiredUnswept, None) => { self.counts.inc("reads_after_deadline"); self.crit("read-after-deadline"); }
            (KeyState::Absent, Some(value)) | (KeyState::SoftDeleted, Some(value)) => {
                let kind = if token_key(value) != key { "foreign" } else { "deleted-or-never-written" };
                self.fail(&["C02", "C04"], format!("C02/{}-value-for-absent-key/{}", kind, variant),
                          format!("{} of key {} returned {:#x} although the key is absent ({})", variant, key, value, context));
            }
            (KeyState::Absent, None) | (KeyState::SoftDeleted, None) => { self.counts.inc("reads_absent"); }
        }
    }

    /// Reads every key of the universe through a rotating variant (C03 presence, C02 agreement).
    fn sweep_reads(&mut self, context: &str) {
        for key in 1..=self.cfg.n_keys {
            if self.stop { return; }
            if self.at_deadline(key) { self.probe_at_deadline(key); continue; }
            if self.cfg.hit_only && !self.readable(key) { continue; }
            self.read_rotation += 1;
            let variant = self.read_rotation;
            self.checked_read(key, variant, context);
        }
    }

    /// All seven variants back to back on one key must agree with the model (and hence with each other).
    fn all_variants(&mut self, key: u64, context: &str) {
        if self.at_deadline(key) { return; }
        for variant in 0..7 {
            if self.stop { return; }
            self.checked_read(key, variant, context);
        }
        self.counts.inc("all_variant_rounds");
    }

    // ------------------------------------------------------------------------------------ events

    /// Consumes hook events since the last step: learns evictions (pressure) and sweeps, checks sweep safety.
    fn absorb_events(&mut self) {
        let mut events = std::mem::take(&mut self.pending_events);
        events.extend(recorder().take_events());
        for rec in events {
            match rec.event {
                Event::AdmissionStep { evicted: true, victim: Some((victim_id, _, _)), .. } => {
                    self.evictions_seen += 1;
                    self.counts.inc("evictions");
                    let key = self.model.iter().find(|(_, e)| e.id == victim_id).map(|(k, _)| *k);
                    if let Some(key) = key {
                        if !self.cfg.pressure {
                            self.fail(&["C03", "C06"], "C03/eviction-without-pressure".into(),
                                      format!("key {} (id {}) was evicted although the demanded weight always fits the cache", key, victim_id));
                        }
                        self.model.remove(&key);
                        self.dead_ids.insert(victim_id);
                    }
                }
                Event::SweepCompleted { now, evicted, .. } => {
                    let sweep_now = rt::ns_of(now);
                    for id in evicted {
                        self.counts.inc("sweep_evicted_ids");
                        let key = self.model.iter().find(|(_, e)| e.id == id).map(|(k, _)| *k);
                        match key {
                            Some(key) => {
                                let entry = self.model.get(&key).unwrap().clone();
                                match entry.expiry {
                                    // a sweep at the very instant of expiry is not judged (the statements leave that instant open)
                                    Some(expiry) if expiry <= sweep_now => {
                                        if expiry == sweep_now && self.deadline_witness.get(&key) == Some(&(id, sweep_now)) {
                                            self.fail(&["C10", "C03", "C09"], "C10/swept-at-an-instant-at-which-reads-still-return-the-key".into(),
                                                      format!("a read returned key {} (id {}) while the clock stood at {}, exactly its expiry, and a sweep at that same clock reading evicted it: reads and the sweeper disagree about that instant", key, id, sweep_now));
                                            return;
                                        }
                                        self.model.remove(&key);
                                        self.dead_ids.insert(id);
                                        self.counts.inc("keys_swept");
                                        self.crit("key-swept");
                                    }
                                    other => {
                                        self.fail(&["C10", "C03", "C08", "C09"], format!("C10/swept-a-key-that-is-not-expired/expiry={}", if other.is_some() { "future" } else { "none" }),
                                                  format!("the sweeper evicted id {} of key {} at clock {} although its current expiry is {:?}", id, key, sweep_now, other));
                                    }
                                }
                            }
                            None => { self.counts.inc("stale_index_entries_swept"); if self.dead_ids.contains(&id) { self.crit("old-expiry-of-earlier-incarnation-came-due"); } }
                        }
                    }
                }
                Event::AdmissionEnd { status: CommandStatus::Rejected(_), .. } | Event::AdmissionOverweight { .. } => { self.counts.inc("admission_rejections_events"); }
                _ => {}
            }
        }
        for (site, key_id, total, max) in recorder().take_weight_violations() {
            let last = self.history.last().cloned().unwrap_or(J::Null);
            let shape = last_shape(&last);
            self.fail(&["C01"], format!("C01/total-outside-bounds/site={}/{}", site, shape),
                      format!("total weight became {} (limit {}) at {} of key id {}", total, max, site, key_id));
        }
    }

    // ------------------------------------------------------------------------------------ structure / stats

    fn check_structure(&mut self, context: &str) {
        if self.stop { return; }
        let snapshot = self.sut.snapshot();
        let owner = |key: &u64| *key < 1000;
        let stored: HashMap<u64, (u64, Option<u128>, bool)> = snapshot.stored.iter().filter(|e| owner(&e.0))
            .map(|(k, id, exp, soft)| (*k, (*id, exp.map(|t| rt::ns_of(t)), *soft))).collect();
        let charged: HashMap<u64, (u64, i64)> = snapshot.charged.iter().filter(|e| owner(&e.1)).map(|(id, k, _h, w)| (*id, (*k, *w))).collect();
        let index: HashMap<u64, (usize, u128)> = snapshot.ttl_index.iter().map(|(shard, id, exp)| (*id, (*shard, rt::ns_of(*exp)))).collect();
        let now = self.now() as u128;

        // learn ids; detect lost / ghost entries
        let keys: Vec<u64> = self.model.keys().copied().collect();
        for key in keys {
            let entry = self.model.get(&key).unwrap().clone();
            match stored.get(&key) {
                Some((id, expiry, soft)) => {
                    if entry.id == 0 { self.model.get_mut(&key).unwrap().id = *id; }
                    else if entry.id != *id {
                        self.fail(&["C05", "C07"], "C05/stored-id-changed".into(), format!("key {} is stored under id {} but the model tracked id {} ({})", key, id, entry.id, context));
                        return;
                    }
                    if *soft {
                        self.fail(&["C04", "C05"], "C04/soft-deleted-entry-at-quiescence".into(), format!("key {} is still marked deleted with no delete pending ({})", key, context));
                        return;
                    }
                    if *expiry != entry.expiry {
                        self.fail(&["C08", "C09"], format!("C08/stored-expiry-differs/{}/{}", last_shape(self.history.last().unwrap_or(&J::Null)), self.last_state.name()),
                                  format!("key {} has expiry {:?}, expected {:?} ({})", key, expiry, entry.expiry, context));
                        return;
                    }
                    let id = *id;
                    match charged.get(&id) {
                        None => { self.fail(&["C05"], "C05/held-key-not-charged".into(), format!("key {} (id {}) is stored but no weight is charged for it ({})", key, id, context)); return; }
                        Some((charged_key, weight)) => {
                            if *charged_key != key { self.fail(&["C05"], "C05/charged-under-other-key".into(), format!("id {} is charged for key {} but stored for key {}", id, charged_key, key)); return; }
                            if *weight != entry.weight && !self.cfg.lenient_weights {
                                self.fail(&["C08", "C05"], format!("C08/charged-weight-differs/{}/{}", last_shape(self.history.last().unwrap_or(&J::Null)), self.last_state.name()),
                                          format!("key {} is charged {} but the model expects {} ({})", key, weight, entry.weight, context));
                                return;
                            }
                        }
                    }
                    let judge_index = matches!(self.cfg.focus, "C10" | "C05");
                    match (entry.expiry, index.get(&id)) {
                        _ if !judge_index => {}
                        (Some(expiry), Some((shard, indexed))) => {
                            let expected_shard = ((expiry / NS as u128) % self.cfg.sut.shards as u128) as usize;
                            if *indexed != expiry || *shard != expected_shard {
                                self.fail(&["C10"], "C10/index-entry-differs".into(), format!("key {} id {} is indexed at ({}, {}) but expires at {} (shard {})", key, id, shard, indexed, expiry, expected_shard));
                                return;
                            }
                        }
                        (Some(expiry), None) => {
                            self.fail(&["C10"], "C10/expiring-key-not-indexed".into(), format!("key {} id {} expires at {} but is not registered with the sweeper ({})", key, id, expiry, context));
                            return;
                        }
                        (None, Some(_)) => {
                            self.fail(&["C10"], "C10/never-expiring-key-indexed".into(), format!("key {} id {} has no time-to-live but is still registered with the sweeper ({})", key, id, context));
                            return;
                        }
                        (None, None) => {}
                    }
                }
                None => {
                    // at the very instant of expiry (now == expiry) a key may already be gone: that instant is not judged
                    let expired = entry.expiry.map(|e| now >= e).unwrap_or(false);
                    if expired {
                        // swept between two steps without the event having been absorbed yet: learn it
                        self.model.remove(&key);
                        if entry.id != 0 { self.dead_ids.insert(entry.id); }
                        self.counts.inc("keys_swept");
                        self.crit("key-swept");
                    } else if self.cfg.pressure {
                        self.fail(&["C05", "C06"], "C06/key-vanished-without-admission-event".into(), format!("key {} disappeared without an eviction event ({})", key, context));
                        return;
                    } else {
                        self.fail(&["C03", "C10"], "C03/live-key-not-stored".into(), format!("key {} (id {}) is gone from the store although it is live and there is no pressure ({})", key, entry.id, context));
                        return;
                    }
                }
            }
        }
        for (key, (id, _, _)) in &stored {
            if !self.model.contains_key(key) {
                self.fail(&["C05", "C04", "C10"], "C05/ghost-entry-stored".into(), format!("key {} (id {}) is stored but the model holds nothing for it ({})", key, id, context));
                return;
            }
        }
        let model_ids: BTreeSet<u64> = self.model.values().map(|e| e.id).collect();
        for (id, (key, weight)) in &charged {
            if !model_ids.contains(id) {
                self.fail(&["C05", "C04", "C10"], "C05/weight-charged-for-gone-key".into(), format!("id {} (key {}, weight {}) is still charged but the cache no longer holds it ({})", id, key, weight, context));
                return;
            }
        }
        if !self.noise_on {
            let sum: i64 = snapshot.charged.iter().map(|e| e.3).sum();
            if sum != snapshot.weight_used {
                self.fail(&["C05"], "C05/total-differs-from-sum-of-charged".into(), format!("total weight used {} but the charged weights sum to {} ({})", snapshot.weight_used, sum, context));
                return;
            }
            if snapshot.weight_used != self.sut.cache.total_weight_used() {
                self.fail(&["C05"], "C05/api-total-differs-from-snapshot".into(), "total_weight_used() disagrees with the snapshot".into());
                return;
            }
            if snapshot.weight_used as i128 != self.model_total() && !self.cfg.lenient_weights {
                self.fail(&["C05", "C08"], "C05/total-differs-from-model".into(), format!("total weight used {} but the model holds {} ({})", snapshot.weight_used, self.model_total(), context));
                return;
            }
            if snapshot.weight_used < 0 || snapshot.weight_used > snapshot.max_weight {
                self.fail(&["C01"], format!("C01/total-outside-bounds/observed/{}", last_shape(self.history.last().unwrap_or(&J::Null))),
                          format!("total weight used {} with limit {}", snapshot.weight_used, snapshot.max_weight));
                return;
            }
        }
        self.counts.inc("structure_checks");
    }

    fn check_stats(&mut self, context: &str) {
        if self.stop || self.noise_on { return; }
        if let Err(waited) = self.sut.quiesce() { self.stuck("quiescence", waited); return; }
        let exited = self.sut.background_exits();
        if !exited.is_empty() {
            let panicked = self.sut.background_panics();
            let site = rt::panics_since(self.panic_mark).last().map(rt::panic_site).unwrap_or_else(|| "no-panic".into());
            let why = rt::panics_since(self.panic_mark).last().map(|p| format!("{}:{}: {}", p.file, p.line, p.message)).unwrap_or_default();
            self.fail(&["C17"], format!("C17/background-thread-exited/{:?}/{}/counters={}", exited, site, if self.cfg.sut.counters == 1 { "1" } else { ">1" }),
                      format!("background thread(s) {:?} exited while the cache was running (panicked: {:?}, counters {}): {} ({})", exited, panicked, self.cfg.sut.counters, why, context));
            return;
        }
        let summary = self.sut.cache.stats_summary();
        let get = |t: StatsType| summary.get(&t).unwrap_or(0);
        let (hits, misses) = (get(StatsType::CacheHits), get(StatsType::CacheMisses));
        if hits + misses != self.lookups {
            self.fail(&["C16"], "C16/hits-plus-misses-differs-from-lookups".into(), format!("hits {} + misses {} != {} lookups issued ({})", hits, misses, self.lookups, context));
            return;
        }
        let snapshot = self.sut.snapshot();
        let held = snapshot.stored.len() as u64;
        if get(StatsType::KeysAdded).wrapping_sub(get(StatsType::KeysDeleted)) != held {
            self.fail(&["C16"], "C16/keys-added-minus-deleted-differs-from-held".into(),
                      format!("KeysAdded {} - KeysDeleted {} != {} keys held ({})", get(StatsType::KeysAdded), get(StatsType::KeysDeleted), held, context));
            return;
        }
        if get(StatsType::WeightAdded).wrapping_sub(get(StatsType::WeightRemoved)) != snapshot.weight_used as u64 {
            self.fail(&["C16"], "C16/weight-added-minus-removed-differs-from-used".into(),
                      format!("WeightAdded {} - WeightRemoved {} != weight used {} ({})", get(StatsType::WeightAdded), get(StatsType::WeightRemoved), snapshot.weight_used, context));
            return;
        }
        if get(StatsType::KeysRejected) != self.admission_rejects {
            self.fail(&["C16"], "C16/keys-rejected-differs".into(), format!("KeysRejected {} != {} puts refused by admission ({})", get(StatsType::KeysRejected), self.admission_rejects, context));
            return;
        }
        let lookups = hits + misses;
        let expected_ratio = if lookups == 0 { 0.0 } else { hits as f64 / lookups as f64 };
        if (summary.hit_ratio - expected_ratio).abs() > 1e-12 * expected_ratio.max(1.0) {
            let class = if misses == 0 { "all-hits" } else if hits == 0 { "all-misses" } else { "mixed" };
            self.fail(&["C16"], format!("C16/hit-ratio-wrong/{}", class), format!("hit ratio {} but hits {} / lookups {} = {} ({})", summary.hit_ratio, hits, lookups, expected_ratio, context));
            return;
        }
        // C15 identity at quiescence
        let (added, dropped) = (get(StatsType::AccessAdded), get(StatsType::AccessDropped));
        let buffered = snapshot.buffered_hits as u64;
        if hits != added + dropped + buffered {
            self.fail(&["C15"], "C15/hits-not-accounted".into(), format!("hits {} != added {} + dropped {} + buffered {} ({})", hits, added, dropped, buffered, context));
            return;
        }
        if self.sut.background_exits().is_empty() && self.sut.applied() != added {
            self.fail(&["C15"], "C15/applied-differs-from-added".into(), format!("access records applied {} != AccessAdded {} ({})", self.sut.applied(), added, context));
            return;
        }
        // every record handed to the sketch advanced its ageing window by one (the window restarts at exactly `counters` records)
        if self.sut.background_exits().is_empty() {
            let counters = self.cfg.sut.counters.max(1);
            let position = self.sut.cache.verif_sketch_total_increments();
            if position != self.sut.applied() % counters {
                self.fail(&["C15", "C14"], "C15/delivered-records-missing-from-the-sketch-window".into(),
                          format!("{} access records were handed to the sketch ({} counters per window) but it stands at position {} of its window instead of {} ({})", self.sut.applied(), counters, position, self.sut.applied() % counters, context));
                return;
            }
            if self.sut.applied() > counters { self.crit("sketch-window-restarted-with-records-accounted"); }
        }
        if misses == 0 && hits > 0 { self.crit("all-hit-prefix"); }
        if hits == 0 && misses > 0 { self.crit("all-miss-prefix"); }
        self.counts.inc("stats_checks");
    }

    // ------------------------------------------------------------------------------------ write execution

    /// Quiesces the access pipeline and reads, through the accessors only, what the admission decision will be based on.
    fn observe_before_admission(&mut self, op: &WriteOp) -> Option<crate::admission::Decision> {
        if let Err(waited) = self.sut.quiesce() { self.stuck("quiescence before an admission decision", waited); return None; }
        self.pending_events.extend(recorder().take_events());
        let snapshot = self.sut.snapshot();
        let charged = snapshot.charged.iter().map(|(id, key, hash, weight)| crate::admission::Charged { id: *id, key: *key, weight: *weight, estimate: self.sut.cache.verif_estimate_hash(*hash) }).collect();
        Some(crate::admission::Decision { max_weight: snapshot.max_weight, used_before: snapshot.weight_used, weight: self.op_weight(op),
            incoming_estimate: self.sut.cache.verif_estimate(&op.key()), charged })
    }

    fn judge_admission(&mut self, op: &WriteOp, decision: &crate::admission::Decision, status: CommandStatus) {
        let events = recorder().take_events();
        let verdict = {
            let steps: Vec<&Event> = events.iter().map(|r| &r.event).filter(|e| matches!(e, Event::AdmissionStep { .. })).collect();
            crate::admission::judge(decision, &steps, status)
        };
        self.pending_events.extend(events);
        self.counts.inc(format!("end_to_end_decisions:{}", verdict.class));
        if verdict.tie { self.counts.inc("end_to_end_decisions_with_a_tie"); }
        if decision.incoming_estimate > 0 { self.counts.inc("end_to_end_decisions_with_a_warm_incoming_key"); }
        if decision.charged.iter().any(|c| c.estimate > 0) { self.counts.inc("end_to_end_decisions_with_warm_residents"); }
        if let Some((signature, detail)) = verdict.problems.first() {
            self.fail(&["C06"], format!("C06/{}/end-to-end", signature), format!("{} of key {} (weight {}, estimate {}): {}", op.shape(), op.key(), decision.weight, decision.incoming_estimate, detail));
            return;
        }
        let used_after = self.sut.cache.total_weight_used();
        if used_after != verdict.expected_used_after {
            self.fail(&["C06", "C05"], "C06/total-wrong-after-decision/end-to-end".into(), format!("total is {} but {} was expected (evicted ids {:?}, status {})", used_after, verdict.expected_used_after, verdict.evicted, status_name(&status)));
            return;
        }
        for key in &verdict.evicted_keys {
            if self.sut.cache.verif_snapshot().stored.iter().any(|e| e.0 == *key && verdict.evicted.contains(&e.1)) {
                self.fail(&["C06", "C05"], "C06/victim-still-stored/end-to-end".into(), format!("victim key {} is still stored", key));
                return;
            }
        }
        self.crit(&format!("end-to-end-decision:{}", verdict.class));
    }

    fn op_weight(&self, op: &WriteOp) -> i64 {
        let mode = self.cfg.sut.weight_mode;
        match op {
            WriteOp::Put { value, .. } => computed_weight(mode, *value, false),
            WriteOp::PutTtl { value, .. } => computed_weight(mode, *value, true),
            WriteOp::PutW { weight, .. } | WriteOp::PutWTtl { weight, .. } => *weight,
            WriteOp::Upsert { value, weight, ttl, .. } => weight.unwrap_or_else(|| computed_weight(mode, value.unwrap_or(0), ttl.is_some())),
            WriteOp::Delete { .. } => 0,
        }
    }

    /// Applies a put (or an upsert acting as a put) of an absent-reading key to the model, given the observed status.
    fn settle_put(&mut self, op: &WriteOp, state: KeyState, status: CommandStatus) {
        let key = op.key();
        let weight = self.op_weight(op);
        let max = self.cfg.sut.max_weight;
        let verb = op.shape();
        match status {
            CommandStatus::Rejected(RejectionReason::KeyAlreadyExists) => {
                let props: &[&'static str] = if op.is_put() { &["C07"] } else { &["C08"] };
                let name = self.state_name(key, state);
                self.fail(props, format!("C07/key-already-exists-for-unreadable-key/{}/{}", name, verb),
                          format!("{} of key {} (state {}: it reads as absent) was rejected with KeyAlreadyExists", verb, key, name));
            }
            CommandStatus::Rejected(RejectionReason::KeyWeightIsGreaterThanCacheWeight) => {
                self.admission_rejects += 1;
                if weight <= max {
                    self.fail(&["C06"], "C06/overweight-rejection-for-fitting-key".into(), format!("{} with weight {} <= cache weight {} was rejected as heavier than the cache", verb, weight, max));
                } else { self.crit("overweight-rejected"); }
            }
            CommandStatus::Rejected(RejectionReason::EnoughSpaceIsNotAvailableAndKeyFailedToEvictOthers) => {
                self.admission_rejects += 1;
                if weight > max {
                    self.fail(&["C06"], "C06/overweight-key-not-rejected-as-overweight".into(), format!("{} with weight {} > cache weight {} was rejected with the wrong reason", verb, weight, max));
                } else if !self.cfg.pressure || (!self.noise_on && self.model_total() + weight as i128 <= max as i128) {
                    self.fail(&["C06", "C03"], "C06/rejected-although-it-fits".into(),
                              format!("{} with weight {} was rejected for lack of space although {} of {} are used", verb, weight, self.model_total(), max));
                } else { self.crit("admission-rejected"); }
            }
            CommandStatus::Accepted => {
                if weight > max {
                    self.fail(&["C06", "C01"], "C06/overweight-key-accepted".into(), format!("{} with weight {} > cache weight {} was accepted", verb, weight, max));
                    return;
                }
                if state == KeyState::ExpiredUnswept {
                    // accepted over an expired-unswept entry: the old incarnation is replaced
                    if let Some(old) = self.model.remove(&key) { if old.id != 0 { self.dead_ids.insert(old.id); } }
                }
                let expiry = op.ttl().map(|ttl| self.now() as u128 + ttl.as_nanos());
                self.model.insert(key, MEntry { value: op.value().unwrap(), weight, expiry, id: 0 });
                self.counts.inc("puts_accepted");
            }
            other => {
                self.fail(&["C12", "C13"], format!("C12/unexpected-status/{}/{}", status_name(&other), verb), format!("{} resolved to {}", verb, status_name(&other)));
            }
        }
        // a put refused by admission changes nothing: the key (which was absent) must not have been stored
        if !self.stop && state == KeyState::Absent && matches!(status, CommandStatus::Rejected(RejectionReason::KeyWeightIsGreaterThanCacheWeight) | CommandStatus::Rejected(RejectionReason::EnoughSpaceIsNotAvailableAndKeyFailedToEvictOthers)) {
            let snapshot = self.sut.snapshot();
            if let Some(entry) = snapshot.stored.iter().find(|e| e.0 == key) {
                self.fail(&["C06", "C05"], format!("C06/rejected-put-left-the-key-stored/{}", op.name()),
                          format!("{} of absent key {} was refused by admission ({}) yet the key is stored afterwards (id {}, expiry {:?})", verb, key, status_name(&status), entry.1, entry.2));
                return;
            }
            self.counts.inc("refused_puts_checked_to_have_stored_nothing");
        }
    }

    fn exec_write(&mut self, op: &WriteOp) {
        let key = op.key();
        let state = self.state(key);
        self.last_state = state;
        self.counts.inc(format!("op:{}:{}", op.shape(), state.name()));
        self.sig = fnv_step(self.sig, crate::util::fnv(format!("{}:{}", op.shape(), state.name()).as_bytes()));
        let readable = matches!(state, KeyState::Live | KeyState::LiveTtl);
        // end-to-end admission check (C06): observe the charged keys and their estimates through the accessor before the put
        let goes_to_admission = self.cfg.focus == "C06" && !readable && state != KeyState::ExpiredUnswept && !matches!(op, WriteOp::Delete { .. }) && op.value().is_some();
        let decision = if goes_to_admission { self.observe_before_admission(op) } else { None };
        if self.stop { return; }
        // now and then the clock moves INSIDE the call: right after the first reading the calling thread takes (the time-to-live of a readable
        // key is applied on the caller's thread). Any reading taken during the call is a legitimate "now"; what must not happen is that the
        // store and the sweeper's index end up with different deadlines for the key.
        let t0 = self.now();
        let jump_by = match op {
            WriteOp::Upsert { ttl: Some(ttl), .. } if readable && !self.at_deadline(key) && !self.noise_on && !self.cfg.hit_only
                && matches!(self.cfg.focus, "C03" | "C08" | "C09" | "C10") && self.rng.chance(1, 3) => {
                let delta = *self.rng.pick(&[1u64, 600_000_000, NS, 2_500_000_000]);
                if ttl.as_nanos() > delta as u128 + NS as u128 && (t0 as u128 + delta as u128) < 17_000_000_000u128 * NS as u128 { Some(delta) } else { None }
            }
            _ => None,
        };
        if let Some(delta) = jump_by { rt::arm_clock_jump(1, delta); }
        let issued = issue(&self.sut.cache, op);
        let jumped = if jump_by.is_some() { rt::disarm_clock_jump() } else { false };
        if jumped {
            self.sut.sweeps_at_last_clock_change.store(recorder().sweeps(), Ordering::SeqCst);
            self.counts.inc("clock_moved_between_two_readings_inside_an_upsert");
        }
        let status = match self.wait(issued, op, state) { Some(status) => status, None => return };
        if let Some(decision) = decision { self.judge_admission(op, &decision, status); if self.stop { return; } }
        match op {
            WriteOp::Put { .. } | WriteOp::PutW { .. } | WriteOp::PutTtl { .. } | WriteOp::PutWTtl { .. } => {
                if readable {
                    if self.at_deadline(key) { self.stop_quietly(); return; }
                    self.crit("put-on-readable-key");
                    if status != CommandStatus::Rejected(RejectionReason::KeyAlreadyExists) {
                        self.fail(&["C07"], format!("C07/put-on-readable-key-not-rejected/{}/{}", op.name(), status_name(&status)),
                                  format!("{} of readable key {} resolved to {} instead of Rejected(KeyAlreadyExists)", op.name(), key, status_name(&status)));
                        return;
                    }
                } else {
                    if state == KeyState::ExpiredUnswept { self.crit("put-on-expired-unswept-key"); }
                    self.settle_put(op, state, status);
                }
            }
            WriteOp::Upsert { value, weight, ttl, remove_ttl, .. } => {
                if readable {
                    if self.at_deadline(key) { self.stop_quietly(); return; }
                    self.crit(&format!("upsert:{}:{}", op.shape(), state.name()));
                    if status != CommandStatus::Accepted {
                        self.fail(&["C08"], format!("C08/upsert-of-readable-key-not-accepted/{}/{}", op.shape(), status_name(&status)),
                                  format!("{} of readable key {} resolved to {}", op.shape(), key, status_name(&status)));
                        return;
                    }
                    let now = self.now() as u128;
                    let mode = self.cfg.sut.weight_mode;
                    let entry = self.model.get_mut(&key).unwrap();
                    let had_ttl = entry.expiry.is_some();
                    if let Some(value) = value { entry.value = *value; }
                    if *remove_ttl { entry.expiry = None; } else if let Some(ttl) = ttl {
                        entry.expiry = Some(now + ttl.as_nanos());
                        if jumped {
                            // the deadline is "a reading taken during the call" + ttl: learn which one from the store
                            let (lo, hi) = (t0 as u128 + ttl.as_nanos(), now + ttl.as_nanos());
                            self.lookups += 1;
                            if let Some((_, Some(seen))) = read_ref(&self.sut.cache, key) { if seen >= lo && seen <= hi { entry.expiry = Some(seen); } }
                        }
                    }
                    let has_ttl = entry.expiry.is_some();
                    if let Some(weight) = weight { entry.weight = *weight; }
                    else if let Some(value) = value { entry.weight = computed_weight(mode, *value, ttl.is_some()); }
                    else if !had_ttl && has_ttl { entry.weight = entry.weight.saturating_add(TTL_ENTRY); }
                    else if had_ttl && !has_ttl { entry.weight -= TTL_ENTRY; }
                } else {
                    self.crit(&format!("upsert:{}:{}", op.shape(), state.name()));
                    self.counts.inc("upserts_taking_put_path");
                    self.settle_put(op, state, status);
                }
            }
            WriteOp::Delete { .. } => {
                match state {
                    KeyState::Absent | KeyState::SoftDeleted => {
                        self.crit("delete-of-absent-key");
                        if status != CommandStatus::Rejected(RejectionReason::KeyDoesNotExist) {
                            self.fail(&["C04"], format!("C04/delete-of-absent-key/{}", status_name(&status)), format!("delete of key {} that is not in the cache resolved to {}", key, status_name(&status)));
                            return;
                        }
                    }
                    KeyState::Live | KeyState::LiveTtl => {
                        self.crit(&format!("delete-of-{}-key", state.name()));
                        if status != CommandStatus::Accepted {
                            self.fail(&["C04"], format!("C04/delete-of-held-key/{}", status_name(&status)), format!("delete of held key {} resolved to {}", key, status_name(&status)));
                            return;
                        }
                        if let Some(old) = self.model.remove(&key) { if old.id != 0 { self.dead_ids.insert(old.id); } }
                    }
                    KeyState::ExpiredUnswept => {
                        // expired but possibly not swept yet: either answer is acceptable; learn which
                        match status {
                            CommandStatus::Accepted | CommandStatus::Rejected(RejectionReason::KeyDoesNotExist) => {
                                if let Some(old) = self.model.remove(&key) { if old.id != 0 { self.dead_ids.insert(old.id); } }
                            }
                            other => { self.fail(&["C04"], format!("C04/delete-of-expired-key/{}", status_name(&other)), format!("delete of expired key {} resolved to {}", key, status_name(&other))); return; }
                        }
                    }
                }
            }
        }
        if self.stop { return; }
        if let (WriteOp::Upsert { .. }, KeyState::ExpiredUnswept, Some(entry)) = (op, state, self.model.get(&key).cloned()) {
            // the key read as absent, the upsert was acknowledged as accepted: it must be readable now, like after a put
            if !self.at_deadline(key) && self.readable(key) {
                self.lookups += 1;
                let got = read_ref(&self.sut.cache, key);
                if got.map(|g| g.0) != Some(entry.value) {
                    let name = self.state_name(key, state);
                    self.fail(&["C08"], format!("C08/accepted-upsert-lost/{}/{}", name, op.shape()),
                              format!("{} of key {} (past its time-to-live, not yet swept: it reads as absent) was acknowledged as accepted but the key reads {:?}", op.shape(), key, got));
                    return;
                }
                if got.and_then(|g| g.1) != entry.expiry {
                    self.fail(&["C08", "C09"], format!("C08/upsert-as-put-expiry-differs/expired-unswept/{}", op.shape()),
                              format!("{} of key {} (expired, unswept) left expiry {:?}, a put would have left {:?}", op.shape(), key, got.and_then(|g| g.1), entry.expiry));
                    return;
                }
            }
        }
        if self.at_deadline(key) { self.probe_at_deadline(key); }
        // immediate read-back through get_ref: value and expiry visible as soon as the call returned / was acknowledged
        if !self.at_deadline(key) && !(self.cfg.hit_only && !self.readable(key)) {
            self.lookups += 1;
            let got = read_ref(&self.sut.cache, key);
            let expected_expiry = self.model.get(&key).and_then(|e| e.expiry);
            self.judge_read(key, got.map(|g| g.0), "get_ref", "read-back after the write");
            if self.stop { return; }
            if let (Some((_, seen_expiry)), true) = (got, self.readable(key)) {
                if seen_expiry != expected_expiry {
                    // a deadline earlier than requested means the key will be hidden / swept before its time-to-live has elapsed (C03 as well)
                    let early = match (seen_expiry, expected_expiry) { (Some(seen), Some(expected)) => seen < expected, (Some(_), None) => true, _ => false };
                    let props: &[&'static str] = if early { &["C08", "C09", "C03"] } else { &["C08", "C09"] };
                    self.fail(props, format!("C08/expiry-differs-after-write/{}/{}", op.shape(), state.name()),
                              format!("after {} key {} has expiry {:?}, expected {:?}", op.shape(), key, seen_expiry, expected_expiry));
                }
            }
        }
        if jumped && !self.stop { self.after_clock_moved(t0); }
    }

    /// After a write, every third time (always for focus C02): all seven read variants back to back on the written key.
    fn agreement_round(&mut self, key: u64) {
        if self.stop || self.at_deadline(key) { return; }
        if self.cfg.hit_only && !self.readable(key) { return; }
        if self.cfg.focus == "C02" || self.rng.chance(1, 3) { self.all_variants(key, "all seven read variants right after the write"); }
    }

    fn stop_quietly(&mut self) { self.counts.inc("histories_cut_at_exact_deadline"); self.stop = true; }

    fn exec_held_delete(&mut self, key: u64, then: &Option<WriteOp>) {
        let state = self.state(key);
        self.counts.inc(format!("op:held-delete:{}", state.name()));
        self.sig = fnv_step(self.sig, crate::util::fnv(format!("held-delete:{}", state.name()).as_bytes()));
        sched().arm(Site::WorkerDequeued, 0);
        let delete = WriteOp::Delete { key };
        let issued_delete = issue(&self.sut.cache, &delete);
        if !sched().wait_holding(Site::WorkerDequeued, Duration::from_secs(5)) {
            sched().release(Site::WorkerDequeued);
            self.counts.inc("held_delete_window_not_entered");
            let _ = self.wait(issued_delete, &delete, state);
            self.stop = true;
            return;
        }
        // window: delete() has returned, its acknowledgement is still pending (the worker has not executed it)
        let was_readable = matches!(state, KeyState::Live | KeyState::LiveTtl);
        let saved = self.model.get(&key).cloned();
        if was_readable { self.crit("reads-inside-pre-acknowledgement-window"); }
        let held_entry = self.model.remove(&key);
        for variant in 0..7 {
            self.lookups += 1;
            let got = read(&self.sut.cache, variant, key);
            self.counts.inc("reads_inside_delete_window");
            if let Some(value) = got {
                sched().release(Site::WorkerDequeued);
                self.fail(&["C04", "C02"], format!("C04/deleted-value-visible-before-acknowledgement/{}", READ_VARIANTS[variant]),
                          format!("{} returned {:#x} for key {} after delete() had returned (acknowledgement still pending)", READ_VARIANTS[variant], value, key));
                return;
            }
        }
        // from other threads too
        let cache = self.sut.cache.clone();
        let other: Vec<Option<u64>> = thread::scope(|scope| {
            let handle = scope.spawn(|| (0..7).map(|variant| read(&cache, variant, key)).collect::<Vec<_>>());
            handle.join().unwrap()
        });
        self.lookups += 7;
        if let Some(Some(value)) = other.iter().find(|v| v.is_some()) {
            sched().release(Site::WorkerDequeued);
            self.fail(&["C04", "C02"], "C04/deleted-value-visible-before-acknowledgement/other-thread".into(),
                      format!("another thread read {:#x} for key {} after delete() had returned", value, key));
            return;
        }
        // a value-less upsert (time-to-live only / weight only) made by a client that does not know about the delete must not
        // bring the deleted value back; what the upsert itself answers is not judged (the key reads as absent: precondition)
        let mut valueless_ack = None;
        let expired_before = state == KeyState::ExpiredUnswept;
        if (was_readable || expired_before) && self.rng.chance(1, 2) {
            let shape = if expired_before { 0 } else { self.rng.below(3) };
            let op = match shape {
                0 => WriteOp::Upsert { key, value: None, weight: None, ttl: Some(Duration::from_secs(50 + self.rng.below(50))), remove_ttl: false },
                1 => WriteOp::Upsert { key, value: None, weight: Some(self.key_cap(key).min(40)), ttl: None, remove_ttl: false },
                _ => WriteOp::Upsert { key, value: None, weight: Some(30), ttl: None, remove_ttl: true },
            };
            self.counts.inc(format!("op:{}:soft-deleted", op.shape()));
            self.history.push(op.to_json().with("note", J::s("value-less upsert inside the delete window")));
            if let Issued::Ack(ack, uid) = issue(&self.sut.cache, &op) { valueless_ack = Some((ack, uid, op)); }
            for variant in 0..7 {
                self.lookups += 1;
                let got = read(&self.sut.cache, variant, key);
                self.counts.inc("reads_inside_delete_window_after_a_valueless_upsert");
                if let Some(value) = got {
                    sched().release(Site::WorkerDequeued);
                    self.fail(&["C04", "C02"], format!("C04/deleted-value-visible-after-valueless-upsert/{}", READ_VARIANTS[variant]),
                              format!("{} returned {:#x} for key {} after delete() had returned and a value-less put_or_update touched the key", READ_VARIANTS[variant], value, key));
                    return;
                }
            }
        }
        let issued_then = then.as_ref().map(|op| {
            self.counts.inc(format!("op:{}:soft-deleted", op.shape()));
            self.crit(&format!("upsert:{}:soft-deleted", op.shape()));
            issue(&self.sut.cache, op)
        });
        sched().release(Site::WorkerDequeued);
        if let Some((ack, uid, op)) = valueless_ack {
            let waited = rt::await_ack(ack.handle(), uid, &self.sut.marks);
            if uid != 0 { recorder().forget_acked(uid); }
            if !matches!(waited, Waited::Ready(_)) { self.fail(&["C12"], format!("C12/abnormal-acknowledgement/{}", waited_name(&waited)), format!("{} inside the delete window: {}", op.shape(), waited_name(&waited))); return; }
        }
        let delete_status = match self.wait(issued_delete, &delete, state) { Some(s) => s, None => return };
        let expect_accept = held_entry.is_some();
        let ok = match (expect_accept, state) {
            (_, KeyState::ExpiredUnswept) => matches!(delete_status, CommandStatus::Accepted | CommandStatus::Rejected(RejectionReason::KeyDoesNotExist)),
            (true, _) => delete_status == CommandStatus::Accepted,
            (false, _) => delete_status == CommandStatus::Rejected(RejectionReason::KeyDoesNotExist),
        };
        if !ok {
            self.fail(&["C04"], format!("C04/delete-status/{}/{}", state.name(), status_name(&delete_status)), format!("delete of key {} in state {} resolved to {}", key, state.name(), status_name(&delete_status)));
            return;
        }
        if let Some(old) = saved { if old.id != 0 { self.dead_ids.insert(old.id); } }
        if let (Some(issued), Some(op)) = (issued_then, then.as_ref()) {
            let status = match self.wait(issued, op, KeyState::SoftDeleted) { Some(s) => s, None => return };
            // the key read as absent when the upsert was made: it must behave like the corresponding put
            self.settle_put(op, KeyState::SoftDeleted, status);
            if self.stop { return; }
            if status == CommandStatus::Accepted {
                self.lookups += 1;
                let got = read_ref(&self.sut.cache, key);
                if got.map(|g| g.0) != op.value() {
                    self.fail(&["C08"], format!("C08/accepted-upsert-lost/soft-deleted/{}", op.shape()),
                              format!("{} of key {} (deleted, delete not yet applied) was acknowledged as accepted but the key reads {:?}", op.shape(), key, got));
                    return;
                }
            }
        }
    }

    fn exec_advance(&mut self, delta_ns: u64) {
        self.counts.inc("op:advance");
        let before = self.now();
        if before as u128 + delta_ns as u128 > 17_900_000_000u128 * NS as u128 { return; }
        // C17: now and then the clock is corrected BACKWARDS instead - only while no held key carries a deadline, so that every deadline set
        // afterwards is unambiguous for the model; sweeps must keep completing on both sides of the step
        if self.cfg.focus == "C17" && self.model.values().all(|e| e.expiry.is_none()) && self.overdue.is_empty() && self.rng.chance(1, 3) {
            let back = *self.rng.pick(&[1_000_000u64, 5_000_000, NS / 2, NS, 3 * NS]);
            self.sut.step_back(back);
            self.sig = fnv_step(self.sig, 0xBAC0 ^ back);
            self.counts.inc("clock_stepped_backwards_between_sweeps");
            if let Err(waited) = self.sut.settle() { self.stuck("sweeps after the clock stepped backwards", waited); }
            return;
        }
        self.sut.advance(delta_ns);
        self.sig = fnv_step(self.sig, 0xADu64 ^ (delta_ns.min(4 * NS)));
        self.after_clock_moved(before);
    }

    /// What follows every movement of the clock: probes at exact deadlines, two completed sweeps, deadlines counted.
    fn after_clock_moved(&mut self, before: u64) {
        let at_deadline: Vec<u64> = self.model.keys().copied().filter(|k| self.at_deadline(*k)).collect();
        for key in at_deadline { self.probe_at_deadline(key); }
        if let Err(waited) = self.sut.settle() { self.stuck("sweeps after a clock change", waited); return; }
        let now = self.now() as u128;
        for (_, entry) in self.model.iter() {
            if let Some(expiry) = entry.expiry {
                if (before as u128) <= expiry && now > expiry { self.counts.inc("deadlines_crossed"); }
            }
        }
    }

    fn exec_full_cycle(&mut self) {
        self.counts.inc("op:full-cycle");
        self.sig = fnv_step(self.sig, 0xFC);
        if !self.sut.sweeper_runs() { return; }
        let start = self.now() as u128;
        let must_go: Vec<u64> = self.model.iter().filter(|(_, e)| e.expiry.map(|x| x < start).unwrap_or(false)).map(|(k, _)| *k).collect();
        for _ in 0..self.cfg.sut.shards {
            self.sut.advance(NS);
            if let Err(waited) = self.sut.settle() { self.stuck("sweeps during a full cycle", waited); return; }
        }
        self.absorb_events();
        if self.stop { return; }
        self.check_structure("after a full sweep cycle");
        if self.stop { return; }
        for key in must_go {
            if self.model.contains_key(&key) {
                if matches!(self.cfg.focus, "C10" | "C05") {
                    self.fail(&["C10"], "C10/expired-key-survived-a-full-cycle".into(),
                              format!("key {} expired before the cycle began and is still held after the clock dwelt on {} consecutive seconds with a completed sweep each", key, self.cfg.sut.shards));
                    return;
                }
                if let Some(entry) = self.model.get(&key) { if let Some(expiry) = entry.expiry { self.overdue.insert(key, (entry.id, expiry)); } }
                self.counts.inc("keys_overdue_after_a_full_cycle");
            }
        }
        self.crit("full-cycle");
    }

    // ------------------------------------------------------------------------------------ generation

    fn gen_ttl(&mut self) -> Duration {
        let shards = self.cfg.sut.shards as u64;
        if self.cfg.allow.ttl_overflow && self.cfg.boundary_args && self.rng.chance(1, 10) {
            return *self.rng.pick(&[Duration::MAX, Duration::from_secs(i64::MAX as u64), Duration::from_secs(u64::MAX / 4)]);
        }
        let choices: [u64; 7] = [0, 1, NS - 1, NS, 2 * NS, shards * NS, 3600 * NS];
        let roll = self.rng.below(12);
        match roll {
            0..=6 => Duration::from_nanos(choices[roll as usize]),
            7 => Duration::from_secs(1u64 << 32),
            8 => Duration::from_secs(u32::MAX as u64),
            _ => Duration::from_nanos(self.rng.range(1, 5 * NS)),
        }
    }

    fn gen_weight(&mut self, key: u64) -> i64 {
        let max = self.cfg.sut.max_weight;
        if self.cfg.boundary_args && self.rng.chance(1, 6) {
            return *self.rng.pick(&[1, 24, 25, max, max.saturating_add(1), i64::MAX, i64::MAX / 2, max - 1, i64::MAX - 5, i64::MAX / 2 + 1, max / 2 + 1]).max(&1);
        }
        if self.cfg.pressure {
            let free = (max as i128 - self.model_total()).clamp(1, i64::MAX as i128) as i64;
            let roll = self.rng.below(10);
            return match roll {
                0 => 1,
                1 => free,
                2 => free.saturating_add(1),
                3 => (free - 1).max(1),
                4 => max,
                5 => max.saturating_add(1),
                6 => (max - 1).max(1),
                _ => self.rng.range(1, (max as u64 / 2).max(1)) as i64,
            };
        }
        // no pressure: per-key cap so that the sum of the maxima always fits
        let cap = self.key_cap(key);
        if self.cfg.saturate { return cap; }
        if self.cfg.lenient_weights && self.rng.chance(1, 2) { return cap; }
        let roll = self.rng.below(8);
        match roll { 0 => 1, 1 => cap, 2 => 24.min(cap), 3 => 25.min(cap), _ => self.rng.range(1, cap as u64) as i64 }
    }

    /// Largest weight a key may ever demand in the no-pressure flavour (sum over keys + TTL entries fits the cache).
    fn key_cap(&self, _key: u64) -> i64 { self.cfg.cap }

    fn gen_upsert(&mut self, key: u64) -> Option<WriteOp> {
        let state = self.state(key);
        let readable = matches!(state, KeyState::Live | KeyState::LiveTtl);
        // an upsert of an expired, unswept key that carries a value AND changes or removes the time-to-live revives the key (it is not one of
        // the recorded request shapes that are acknowledged and lost): C10/C09/C08/C03 histories always draw those
        let revival_only = state == KeyState::ExpiredUnswept && !self.cfg.allow.upsert_on_expired;
        if revival_only && !matches!(self.cfg.focus, "C10" | "C09" | "C08" | "C03") { return None; }
        for _ in 0..8 {
            let mask = if self.cfg.saturate && readable { *self.rng.pick(&[4u64, 8, 8, 4]) } else if self.cfg.saturate { 3 } else { self.rng.range(1, 15) };
            let with_value = mask & 1 != 0;
            let with_weight = mask & 2 != 0;
            let with_ttl = mask & 4 != 0;
            let remove_ttl = mask & 8 != 0;
            if with_ttl && remove_ttl { continue; }
            if !readable && !with_value { continue; }
            if revival_only && !(with_value && (with_ttl || remove_ttl)) { continue; }
            let value = if with_value { Some(self.fresh_token(key)) } else { None };
            let weight = if with_weight { Some(self.gen_weight(key)) } else { None };
            let ttl = if with_ttl { Some(self.gen_ttl()) } else { None };
            if let Some(ttl) = ttl { if !self.cfg.allow.ttl_overflow && ttl > Duration::from_secs(1 << 40) { continue; } }
            if readable {
                let entry = self.model.get(&key).unwrap();
                let mode = self.cfg.sut.weight_mode;
                let had_ttl = entry.expiry.is_some();
                let has_ttl = if remove_ttl { false } else if with_ttl { true } else { had_ttl };
                let new_weight = if let Some(weight) = weight { weight }
                    else if let Some(value) = value { computed_weight(mode, value, with_ttl) }
                    else if !had_ttl && has_ttl { entry.weight.saturating_add(TTL_ENTRY) }
                    else if had_ttl && !has_ttl { entry.weight - TTL_ENTRY }
                    else { entry.weight };
                if new_weight <= 0 && !self.cfg.allow.remove_ttl_small_weight { continue; }
                let others: i128 = self.model_total() - entry.weight as i128;
                let fits = new_weight as i128 <= self.cfg.sut.max_weight as i128 - others;
                if !fits && !self.cfg.allow.overweight_update { continue; }
                if !self.cfg.pressure && new_weight > self.key_cap(key) + TTL_ENTRY && !self.cfg.allow.overweight_update { continue; }
            } else if !self.cfg.pressure {
                let w = weight.unwrap_or_else(|| computed_weight(self.cfg.sut.weight_mode, value.unwrap(), with_ttl));
                if w > self.key_cap(key) + TTL_ENTRY && w <= self.cfg.sut.max_weight { continue; }
            }
            return Some(WriteOp::Upsert { key, value, weight, ttl, remove_ttl });
        }
        None
    }

    fn gen_put(&mut self, key: u64) -> Option<WriteOp> {
        let state = self.state(key);
        if state == KeyState::ExpiredUnswept && !self.cfg.allow.put_on_expired { return None; }
        let value = self.fresh_token(key);
        let variant = if self.cfg.saturate { 1 + 2 * self.rng.below(2) } else if self.cfg.focus == "C06" && self.rng.chance(2, 3) { 0 } else { self.rng.below(4) };
        let ttl = self.gen_ttl();
        if !self.cfg.allow.ttl_overflow && ttl > Duration::from_secs(1 << 40) { return None; }
        let weight = self.gen_weight(key);
        Some(match variant {
            0 => WriteOp::Put { key, value },
            1 => WriteOp::PutW { key, value, weight },
            2 => WriteOp::PutTtl { key, value, ttl },
            // in a saturated history a key with a TTL sits at its demanded maximum: cap + the TTL entry
            _ => WriteOp::PutWTtl { key, value, weight: if self.cfg.saturate { weight + TTL_ENTRY } else { weight }, ttl },
        })
    }

    /// A clock jump that lands just before / at / just after some key's deadline, or a plain one.
    fn gen_advance(&mut self) -> u64 {
        let now = self.now() as u128;
        let deadlines: Vec<u128> = self.model.values().filter_map(|e| e.expiry).filter(|e| *e >= now && *e - now < 40 * NS as u128).collect();
        if !deadlines.is_empty() && self.rng.chance(2, 3) {
            let deadline = *self.rng.pick(&deadlines);
            let distance = (deadline - now) as u64;
            // now and then land exactly on the deadline (the instant itself is not judged, but reads and sweeps must agree about it)
            if self.rng.chance(1, 10) { return distance; }
            return match self.rng.below(4) {
                0 => distance.saturating_sub(1),
                1 => distance + 1,
                2 => distance + NS,
                _ => distance + self.cfg.sut.shards as u64 * NS,
            };
        }
        let shards = self.cfg.sut.shards as u64;
        *self.rng.pick(&[0, 1, NS - 1, NS, NS + 1, shards * NS, 3600 * NS, 31_536_000 * NS, 2 * NS, 3 * NS])
    }

    fn gen_step(&mut self) -> Step {
        let focus = self.cfg.focus;
        let key = self.rng.range(1, self.cfg.n_keys);
        // relative frequencies: put, upsert, delete, read, multi-read, advance, full cycle, held delete
        let weights: [u64; 8] = match focus {
            "C03" => [22, 18, 12, 10, 4, 18, 6, 2],
            "C04" => [24, 8, 26, 8, 2, 10, 4, 18],
            "C07" => [34, 14, 10, 6, 2, 20, 12, 2],
            "C08" => [18, 44, 8, 4, 2, 12, 4, 8],
            "C09" => [22, 20, 6, 14, 6, 28, 4, 0],
            "C10" => [24, 20, 10, 4, 2, 22, 16, 2],
            "C16" => [22, 14, 12, 26, 12, 8, 4, 2],
            "C17" => [26, 34, 10, 6, 4, 12, 4, 4],
            "C01" => [34, 26, 12, 2, 1, 14, 8, 3],
            "C06" => [40, 6, 10, 30, 8, 4, 1, 1],
            "C05" => [28, 22, 18, 2, 1, 14, 8, 7],
            _ => [24, 20, 12, 12, 4, 16, 6, 6],
        };
        let total: u64 = weights.iter().sum();
        let mut roll = self.rng.below(total);
        let mut choice = 0;
        for (i, w) in weights.iter().enumerate() { if roll < *w { choice = i; break; } roll -= *w; }
        match choice {
            0 => self.gen_put(key).map(Step::Write).unwrap_or(Step::Read { key, variant: 0 }),
            1 => self.gen_upsert(key).map(Step::Write).unwrap_or(Step::Read { key, variant: 1 }),
            2 => Step::Write(WriteOp::Delete { key }),
            3 => Step::Read { key, variant: self.rng.below(7) as usize },
            4 => {
                // now and then one call over a long list (65-200 positions: the key universe, keys that were never written, repeats)
                if !self.cfg.hit_only && self.rng.chance(1, 12) {
                    let len = self.rng.range(65, 200);
                    let keys: Vec<u64> = (0..len).map(|_| if self.rng.chance(1, 2) { self.rng.range(1, self.cfg.n_keys + 1) } else { 500_000 + self.rng.range(0, 500) }).collect();
                    self.counts.inc("multi_key_reads_over_more_than_64_positions");
                    return Step::MultiRead { keys, variant: self.rng.below(3) as usize };
                }
                let n = self.rng.range(1, self.cfg.n_keys.min(5));
                let mut keys: Vec<u64> = Vec::new();
                while (keys.len() as u64) < n { let k = self.rng.range(1, self.cfg.n_keys + 1); if !keys.contains(&k) { keys.push(k); } }
                // now and then the same key is asked for more than once in one call
                if self.rng.chance(1, 3) {
                    let again = *self.rng.pick(&keys);
                    for _ in 0..1 + self.rng.below(2) { let at = self.rng.below(keys.len() as u64 + 1) as usize; keys.insert(at, again); }
                    self.counts.inc("multi_key_reads_with_a_repeated_key");
                }
                // now and then: the clock passes the deadline of a key the iterator has not yielded yet
                if !self.cfg.hit_only && !self.noise_on && self.rng.chance(1, 4) {
                    let now = self.now() as u128;
                    let due: Vec<(u64, u128)> = keys.iter().skip(1).filter(|k| **k != keys[0] && self.readable(**k)).filter_map(|k| self.model.get(k).and_then(|e| e.expiry).map(|x| (*k, x))).filter(|(_, x)| *x > now && *x - now < 3600 * NS as u128).collect();
                    if let Some((_, expiry)) = due.first() {
                        let delta = (*expiry - now) as u64 + 1 + self.rng.below(2) * NS;
                        return Step::IterAcrossAdvance { keys, variant: self.rng.below(2) as usize, delta_ns: delta };
                    }
                }
                // now and then: an iterator that is interrupted by an acknowledged write to a key it has not yielded yet
                let distinct_tail: Vec<u64> = keys.iter().skip(1).copied().filter(|k| *k != keys[0] && self.readable(*k) && !self.at_deadline(*k)).collect();
                if !distinct_tail.is_empty() && !self.cfg.hit_only && self.rng.chance(1, 3) {
                    let target = *self.rng.pick(&distinct_tail);
                    let write = if self.rng.chance(1, 2) { WriteOp::Delete { key: target } } else { WriteOp::Upsert { key: target, value: Some(self.fresh_token(target)), weight: None, ttl: None, remove_ttl: false } };
                    // the value-only upsert re-weighs the key: only where that cannot push the total over what the history may demand
                    let fits = match &write { WriteOp::Upsert { value: Some(v), .. } => { let w = computed_weight(self.cfg.sut.weight_mode, *v, false); self.cfg.pressure || w <= self.key_cap(target) } _ => true };
                    if fits { return Step::IterAcrossWrite { keys, variant: self.rng.below(2) as usize, write }; }
                }
                Step::MultiRead { keys, variant: self.rng.below(3) as usize }
            }
            5 => Step::Advance { delta_ns: self.gen_advance() },
            6 => Step::FullCycle,
            _ => {
                if self.noise_on || self.cfg.hit_only { return Step::Read { key, variant: 0 }; }
                let then = if self.cfg.allow.upsert_on_soft_deleted && self.rng.chance(1, 2) {
                    let value = Some(self.fresh_token(key));
                    let weight = if self.rng.chance(1, 2) { Some(self.gen_weight(key).min(self.key_cap(key))) } else { None };
                    let ttl = if self.rng.chance(1, 3) { Some(Duration::from_secs(self.rng.range(1, 100))) } else { None };
                    Some(WriteOp::Upsert { key, value, weight, ttl, remove_ttl: false })
                } else { None };
                Step::HeldDelete { key, then }
            }
        }
    }

    fn exec_step(&mut self, step: &Step) {
        self.history.push(step.to_json());
        match step {
            Step::Write(op) => { self.exec_write(op); self.agreement_round(op.key()); }
            Step::Read { key, variant } => {
                if self.at_deadline(*key) { return; }
                if self.cfg.hit_only && !self.readable(*key) { return; }
                self.sig = fnv_step(self.sig, 0x4EAD ^ (self.state(*key) as u64) << 8);
                self.checked_read(*key, *variant, "generated read");
            }
            Step::IterAcrossAdvance { keys, variant, delta_ns } => {
                if keys.iter().any(|k| self.at_deadline(*k)) { return; }
                let cache = self.sut.cache.clone();
                let refs: Vec<&u64> = keys.iter().collect();
                let name = ["multi_get_iterator", "multi_get_map_iterator"][*variant % 2];
                let mut plain = if *variant % 2 == 0 { Some(cache.multi_get_iterator(refs.clone())) } else { None };
                let mut mapped = if *variant % 2 == 1 { Some(cache.multi_get_map_iterator(refs, |v| v)) } else { None };
                let mut position = 0usize;
                loop {
                    if self.stop { return; }
                    if position == 1 {
                        self.exec_advance(*delta_ns);
                        if self.stop { return; }
                        if keys.iter().any(|k| self.at_deadline(*k)) { return; }
                        self.counts.inc("iterators_interrupted_by_the_clock_passing_a_deadline");
                    }
                    let item = match (&mut plain, &mut mapped) { (Some(it), _) => it.next(), (_, Some(it)) => it.next(), _ => None };
                    match item {
                        Some(value) => {
                            if position >= keys.len() { self.fail(&["C02"], format!("C02/multi-read-length/{}", name), format!("{} over {} keys produced more items than keys", name, keys.len())); return; }
                            self.lookups += 1;
                            self.judge_read(keys[position], value, name, if position == 0 { "first item of an interrupted iterator" } else { "item yielded after the clock had moved" });
                            position += 1;
                        }
                        None => break,
                    }
                }
                if !self.stop && position != keys.len() {
                    self.fail(&["C02"], format!("C02/multi-read-length/{}", name), format!("{} over {} keys produced {} results", name, keys.len(), position));
                }
            }
            Step::IterAcrossWrite { keys, variant, write } => {
                if keys.iter().any(|k| self.at_deadline(*k)) { return; }
                let cache = self.sut.cache.clone();
                let refs: Vec<&u64> = keys.iter().collect();
                let name = ["multi_get_iterator", "multi_get_map_iterator"][*variant % 2];
                let mut plain = if *variant % 2 == 0 { Some(cache.multi_get_iterator(refs.clone())) } else { None };
                let mut mapped = if *variant % 2 == 1 { Some(cache.multi_get_map_iterator(refs, |v| v)) } else { None };
                let mut position = 0usize;
                loop {
                    if self.stop { return; }
                    if position == 1 {
                        // the write lands between two items; it is applied to the model like any other write of the history
                        self.exec_write(write);
                        if self.stop { return; }
                        self.counts.inc("iterators_interrupted_by_an_acknowledged_write");
                    }
                    let item = match (&mut plain, &mut mapped) { (Some(it), _) => it.next(), (_, Some(it)) => it.next(), _ => None };
                    match item {
                        Some(value) => {
                            if position >= keys.len() { self.fail(&["C02"], format!("C02/multi-read-length/{}", name), format!("{} over {} keys produced more items than keys", name, keys.len())); return; }
                            self.lookups += 1;
                            self.judge_read(keys[position], value, name, if position == 0 { "first item of an interrupted iterator" } else { "item yielded after a write that was acknowledged before this next() began" });
                            position += 1;
                        }
                        None => break,
                    }
                }
                if !self.stop && position != keys.len() {
                    self.fail(&["C02"], format!("C02/multi-read-length/{}", name), format!("{} over {} keys produced {} results", name, keys.len(), position));
                }
            }
            Step::MultiRead { keys, variant } => {
                if keys.iter().any(|k| self.at_deadline(*k)) { return; }
                if self.cfg.hit_only && keys.iter().any(|k| !self.readable(*k)) { return; }
                // an iterator is also consumed through the adaptors every Iterator has: nth(n) must yield the item of position n, and what
                // follows it the items after. Whether the skipped keys are looked up is the iterator's business: the lookup count is re-read.
                if *variant % 3 != 0 && keys.len() >= 2 && !self.cfg.hit_only && self.rng.chance(1, 3) {
                    let cache = self.sut.cache.clone();
                    let refs: Vec<&u64> = keys.iter().collect();
                    let name = ["multi_get_iterator/nth", "multi_get_map_iterator/nth"][(*variant % 3) - 1];
                    let n = self.rng.range(1, keys.len() as u64 - 1) as usize;
                    let before = self.sut.stat(StatsType::CacheHits) + self.sut.stat(StatsType::CacheMisses);
                    let (picked, rest): (Option<Option<u64>>, Vec<Option<u64>>) = if *variant % 3 == 1 { let mut it = cache.multi_get_iterator(refs); (it.nth(n), it.collect()) }
                        else { let mut it = cache.multi_get_map_iterator(refs, |v| v); (it.nth(n), it.collect()) };
                    let looked_up = self.sut.stat(StatsType::CacheHits) + self.sut.stat(StatsType::CacheMisses) - before;
                    let judged = 1 + rest.len() as u64;
                    let looked_up = if self.noise_on { keys.len() as u64 } else { looked_up };
                    if looked_up < judged || looked_up > keys.len() as u64 {
                        self.fail(&["C16"], "C16/hits-plus-misses-differs-from-lookups".into(), format!("{} over {} keys (n = {}) was counted as {} lookups", name, keys.len(), n, looked_up));
                        return;
                    }
                    self.lookups += looked_up;
                    match picked {
                        None => { self.fail(&["C02"], format!("C02/multi-read-length/{}", name), format!("{}({}) over {} keys yielded nothing", name, n, keys.len())); return; }
                        Some(value) => self.judge_read(keys[n], value, name, "item picked with nth()"),
                    }
                    if self.stop { return; }
                    if rest.len() != keys.len() - n - 1 {
                        self.fail(&["C02"], format!("C02/multi-read-length/{}", name), format!("after nth({}) an iterator over {} keys yielded {} more items", n, keys.len(), rest.len()));
                        return;
                    }
                    for (key, value) in keys[n + 1..].iter().zip(rest.into_iter()) {
                        if self.stop { return; }
                        self.judge_read(*key, value, name, "item after nth()");
                    }
                    self.counts.inc("iterators_consumed_through_nth");
                    return;
                }
                self.lookups += keys.len() as u64;
                let got = read_multi_raw(&self.sut.cache, *variant, keys);
                let name = ["multi_get", "multi_get_iterator", "multi_get_map_iterator"][*variant % 3];
                if got.len() != keys.len() {
                    self.fail(&["C02"], format!("C02/multi-read-length/{}", name), format!("{} over {} keys produced {} results", name, keys.len(), got.len()));
                    return;
                }
                for (key, value) in keys.iter().zip(got.into_iter()) {
                    if self.stop { return; }
                    self.judge_read(*key, value, name, "generated multi-key read");
                }
                self.counts.inc("multi_key_reads");
            }
            Step::Advance { delta_ns } => self.exec_advance(*delta_ns),
            Step::FullCycle => self.exec_full_cycle(),
            Step::HeldDelete { key, then } => self.exec_held_delete(*key, then),
        }
    }

    fn after_step(&mut self, context: &str) {
        if self.stop { return; }
        let model = &self.model;
        self.overdue.retain(|k, (id, expiry)| model.get(k).map(|e| e.id == *id && e.expiry == Some(*expiry)).unwrap_or(false));
        self.absorb_events();
        if self.stop { return; }
        self.check_structure(context);
        if self.stop { return; }
        self.sweep_reads(context);
        if self.stop { return; }
        self.check_stats(context);
        let bg = self.sut.background_panics();
        if !self.stop && !bg.is_empty() {
            let site = rt::panics_since(self.panic_mark).last().map(rt::panic_site).unwrap_or_else(|| "no-panic".into());
            self.fail(&["C17"], format!("C17/background-thread-panicked/{:?}/{}/counters={}", bg, site, if self.cfg.sut.counters == 1 { "1" } else { ">1" }), format!("background thread(s) {:?} panicked ({})", bg, context));
        }
        #[cfg(feature = "typed")]
        if !self.stop && !self.noise_on && self.sut.background_exits().is_empty() { self.check_released(context); }
    }

    /// Typed flavours: at this quiescent point every value instance alive is one the store holds. A value of a deleted key that the cache
    /// still owns while every one of its threads is idle has not been released (C04); the verdict is logical (the hang test), not timed.
    #[cfg(feature = "typed")]
    fn check_released(&mut self, context: &str) {
        let stored = self.sut.snapshot().stored.len();
        if crate::typed::retained(stored) <= 0 { self.counts.inc("typed_quiescent_points_where_every_live_value_is_a_stored_entry"); return; }
        let after_delete = last_shape(self.history.last().unwrap_or(&J::Null)).starts_with("delete");
        match rt::wait_until("every value the cache no longer stores to be dropped", || crate::typed::retained(stored) <= 0) {
            Ok(()) => self.counts.inc("typed_quiescent_points_where_every_live_value_is_a_stored_entry"),
            Err(Waited::Deadlock(_)) => {
                rt::clear_abort();
                let retained = crate::typed::retained(stored);
                if after_delete {
                    self.fail(&["C04"], "C04/deleted-value-still-owned-by-the-cache/typed".into(),
                              format!("after the acknowledged delete {} value instance(s) are alive beyond the {} stored entries while every thread of the cache is idle: the deleted value has not been released ({})", retained, stored, context));
                } else {
                    self.counts.inc("typed_quiescent_points_with_a_value_owned_but_not_stored");
                }
            }
            Err(other) => self.inconclusive(format!("release of values: {}", waited_name(&other))),
        }
    }
}

pub fn last_shape(last: &J) -> String {
    if let J::Obj(map) = last {
        // a step that wraps a write (an iterator interrupted by a write, a delete with the worker held followed by an upsert) is named after that write
        for inner in ["after_the_first_item", "then"] { if let Some(write) = map.get(inner) { if matches!(write, J::Obj(_)) { return last_shape(write); } } }
        let op = match map.get("op") { Some(J::Str(s)) => s.clone(), _ => "?".into() };
        if op == "put_or_update" {
            let mut parts = Vec::new();
            if map.contains_key("value") { parts.push("v"); }
            if map.contains_key("weight") { parts.push("w"); }
            if map.contains_key("ttl_ns") { parts.push("t"); }
            if map.contains_key("remove_ttl") { parts.push("r"); }
            return format!("upsert[{}]", parts.join("+"));
        }
        return op;
    }
    "?".into()
}

fn noise_thread(cache: Arc<Cache>, stop: Arc<AtomicBool>, seed: u64, n_owner_keys: u64, lane: u64) -> u64 {
    // every noise thread works on its own keys, one write at a time (each awaited), as the property's proviso
    // demands of the owner too; what is concurrent is the traffic *between* threads
    let mut rng = Rng::new(seed);
    let mut ops = 0u64;
    let mut counter = 0u64;
    let wait = |result: tinylfu_cached::cache::command::command_executor::CommandSendResult| {
        if let Ok(ack) = result { let _ = rt::busy_await(ack.handle(), Duration::from_secs(20)); }
    };
    while !stop.load(Ordering::Relaxed) {
        let key = 1000 + lane * 8 + rng.below(4);
        counter += 1;
        match rng.below(10) {
            0..=2 => wait(cache.put_with_weight(key, token(key, 9, counter), 1 + (key % 5) as i64)),
            3 => wait(cache.put_with_weight_and_ttl(key, token(key, 9, counter), 1 + (key % 5) as i64, Duration::from_nanos(rng.range(0, 3 * NS)))),
            4 => wait(cache.delete(key)),
            5 => {
                if cache.get(&key).is_some() {
                    if let Issued::Ack(ack, _) = issue(&cache, &WriteOp::Upsert { key, value: Some(token(key, 9, counter)), weight: Some(1 + (key % 5) as i64), ttl: None, remove_ttl: false }) {
                        let _ = rt::busy_await(ack.handle(), Duration::from_secs(20));
                    }
                }
            }
            6..=7 => { let _ = cache.get(&key); }
            _ => { let _ = cache.get(&rng.range(1, n_owner_keys)); }
        }
        ops += 1;
        if ops % 64 == 0 { thread::yield_now(); }
    }
    ops
}

/// Runs one generated history. Deterministic given `cfg` (same seed and index ⇒ same operations).
pub fn run_history(cfg: &SeqCfg) -> SeqOut {
    let r = recorder();
    r.keep.store(true, Ordering::SeqCst);
    r.track_acked.store(true, Ordering::SeqCst);
    r.check_weight_bounds.store(true, Ordering::SeqCst);
    let _ = r.take_events();
    let _ = r.take_weight_violations();
    r.clear_acked();
    sched().quiet();
    sched().release_all();
    rt::clear_abort();
    let sut = Sut::new(cfg.sut.clone());
    let mut run = Run {
        cfg, sut, model: BTreeMap::new(), rng: rt::rng_for(cfg.seed, cfg.index, 0x5EC), findings: Vec::new(), counts: Counts::default(),
        critical: BTreeSet::new(), history: Vec::new(), sig: 0xcbf2_9ce4_8422_2325, lookups: 0, admission_rejects: 0, token_counter: 0,
        read_rotation: cfg.index as usize, stop: false, dead_ids: BTreeSet::new(), evictions_seen: 0, noise_on: cfg.noise_threads > 0, last_state: KeyState::Absent, panic_mark: rt::panic_count(), pending_events: Vec::new(), overdue: BTreeMap::new(), deadline_witness: BTreeMap::new(),
    };
    let stop_noise = Arc::new(AtomicBool::new(false));
    let mut noise_handles = Vec::new();
    for n in 0..cfg.noise_threads {
        let cache = run.sut.cache.clone();
        let stop = stop_noise.clone();
        let seed = crate::util::mix(cfg.seed ^ cfg.index, 77 + n as u64);
        let n_keys = cfg.n_keys;
        let lane = n as u64;
        noise_handles.push(thread::spawn(move || noise_thread(cache, stop, seed, n_keys, lane)));
    }
    let mut steps_done = 0;
    for n in 0..cfg.steps {
        if run.stop { break; }
        let step = if cfg.saturate && (n as u64) < cfg.n_keys {
            let key = n as u64 + 1;
            let value = run.fresh_token(key);
            Step::Write(WriteOp::PutWTtl { key, value, weight: cfg.cap + TTL_ENTRY, ttl: Duration::from_secs(3600) })
        } else { run.gen_step() };
        run.exec_step(&step);
        run.after_step("after step");
        steps_done += 1;
    }
    stop_noise.store(true, Ordering::SeqCst);
    let mut noise_ops = 0;
    for handle in noise_handles { noise_ops += handle.join().unwrap_or(0); }
    run.counts.add("noise_ops", noise_ops);
    // liveness probe (C17): the cache still completes a write and answers a read
    let real_findings = run.findings.iter().filter(|f| !f.inconclusive).count();
    if real_findings == 0 && run.findings.is_empty() {
        run.stop = false;
        run.noise_on = false;
        let probe_key = 900;
        let probe = WriteOp::PutW { key: probe_key, value: token(probe_key, 2, 1), weight: 1 };
        run.history.push(J::obj().with("op", J::s("liveness_probe")));
        let issued = issue(&run.sut.cache, &probe);
        if let Some(status) = run.wait(issued, &probe, KeyState::Absent) {
            if !matches!(status, CommandStatus::Accepted | CommandStatus::Rejected(RejectionReason::EnoughSpaceIsNotAvailableAndKeyFailedToEvictOthers)) {
                run.fail(&["C17"], format!("C17/liveness-probe-status/{}", status_name(&status)), "the liveness probe put was answered unexpectedly".into());
            } else if status == CommandStatus::Accepted && !cfg.pressure && run.sut.cache.get(&probe_key) != Some(token(probe_key, 2, 1)) {
                run.fail(&["C17", "C03"], "C17/liveness-probe-unreadable".into(), "the liveness probe value is not readable".into());
            }
            run.counts.inc("liveness_probes");
        }
        let bg = run.sut.background_exits();
        if !run.stop && !bg.is_empty() {
            run.fail(&["C17"], format!("C17/background-thread-exited/{:?}", bg), format!("background thread(s) {:?} exited while the cache was running", bg));
        }
    }
    let sample = J::obj().with("index", J::Int(cfg.index as i128)).with("config", cfg.sut.to_json())
        .with("history", J::Arr(run.history.iter().take(40).cloned().collect()));
    let witness = run.witness();
    let focus = cfg.focus;
    let Run { sut, mut findings, mut counts, critical, sig, .. } = run;
    // a cache whose command worker has died (a recorded finding in some C17 / C13 histories) can still be shut down: shutdown() returns and
    // every read reports absent afterwards
    if matches!(focus, "C13" | "C17") && sut.worker_dead() && !findings.iter().any(|f| f.signature.contains("deadlock")) {
        let cache = sut.cache.clone();
        let keys = cfg.n_keys;
        let helper = std::thread::spawn(move || { cache.shutdown(); (1..=keys).filter(|k| cache.get(k).is_some() || cache.get_ref(k).is_some()).count() });
        match rt::join_helpers("shutdown() of a cache whose worker has died", vec![helper]) {
            Some(readable) => {
                counts.inc("shutdowns_of_a_cache_whose_worker_had_died");
                // its consumer and sweeper now wind down: they must be gone before the next history takes its thread marks (otherwise their
                // exit would be attributed to the next cache); if they are not seen to go in time, this shard stops here
                let sweeper_too = sut.sweeper_runs();
                let gone = rt::poll_until(std::time::Duration::from_secs(5), || { let e = sut.background_exits(); e.contains(&Role::Consumer) && (!sweeper_too || e.contains(&Role::Sweeper)) });
                if !gone { rt::taint(); }
                if readable[0] > 0 {
                    findings.push(Finding { props: vec!["C13"], signature: "C13/api-works-after-shutdown/worker-dead".into(),
                        detail: format!("shutdown() returned on a cache whose command worker had died, and {} keys are still readable", readable[0]), witness: witness.clone(), inconclusive: false });
                }
            }
            // (after a dead worker the join is a bounded poll, not the logical hang test: no verdict from it)
            None => findings.push(Finding { props: vec!["C13"], signature: "inconclusive/shutdown-after-worker-death".into(), detail: "shutdown() of a cache whose worker had died was not seen to return in time".into(), witness: J::Null, inconclusive: true }),
        }
    }
    if let Err(waited) = sut.finish_or_leak() {
        if findings.is_empty() {
            match waited {
                Waited::Deadlock(description) => findings.push(Finding {
                    props: vec!["C13", "C18"], signature: "C13/shutdown-stuck".into(), detail: description, witness, inconclusive: false }),
                other => findings.push(Finding {
                    props: vec![focus], signature: "inconclusive/shutdown".into(), detail: format!("shutdown: {}", waited_name(&other)), witness, inconclusive: true }),
            }
        }
    }
    let _ = r.take_events();
    counts.inc("histories");
    counts.add("steps", steps_done as u64);
    SeqOut { findings, counts, signature: sig, critical, sample, steps_done }
}
