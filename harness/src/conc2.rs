//! C-mode scenarios for command ordering (C11), shutdown (C13), hit accounting (C15) and deadlock stress (C18).
use std::collections::{BTreeMap, BTreeSet, HashMap};
use std::future::Future;
use std::sync::atomic::{AtomicBool, AtomicU64, Ordering};
use std::sync::{Arc, Mutex};
use std::task::{Context, Poll, Wake, Waker};
use std::thread;
use std::time::{Duration, Instant};

use tinylfu_cached::cache::command::acknowledgement::CommandAcknowledgement;
use tinylfu_cached::cache::command::{CommandStatus, RejectionReason};
use tinylfu_cached::cache::stats::StatsType;
use tinylfu_cached::cache::verif::{CommandKind, Event, Role, Site};

use crate::conc::*;
use crate::rt::{self, recorder, sched, site_index, Waited};
use crate::seq::{Finding, NS};
use crate::sut::*;
use crate::util::{fnv_step, Counts, Rng, J};
use crate::Args;

struct StampWaker { woke_at: AtomicU64, wakes: AtomicU64, thread: thread::Thread }

impl Wake for StampWaker {
    fn wake(self: Arc<Self>) { self.wake_by_ref(); }
    fn wake_by_ref(self: &Arc<Self>) {
        let _ = self.woke_at.compare_exchange(0, rt::stamp(), Ordering::SeqCst, Ordering::SeqCst);
        self.wakes.fetch_add(1, Ordering::SeqCst);
        self.thread.unpark();
    }
}

fn poll_with(ack: &CommandAcknowledgement, waker: &Arc<StampWaker>) -> Poll<CommandStatus> {
    let std_waker: Waker = waker.clone().into();
    let mut context = Context::from_waker(&std_waker);
    let mut future = ack.handle();
    std::pin::Pin::new(&mut future).poll(&mut context)
}

fn only_sites(sites: &[Site]) -> u64 {
    let mut mask = !0u64;
    for site in sites { mask &= !(1u64 << site_index(*site)); }
    mask
}

fn fail(findings: &mut Vec<Finding>, props: &[&'static str], signature: String, detail: String, witness: J) {
    findings.push(Finding { props: props.to_vec(), signature, detail, witness, inconclusive: false });
}

// ------------------------------------------------------------------------------------------------ C11: bursts

struct Sub { uid: u64, thread: u64, call: u64, ret: u64, op: WriteOp, first_poll_pending: bool, waker: Arc<StampWaker>, ack: Arc<CommandAcknowledgement>, status: Option<CommandStatus>, seq: usize }

pub fn run_burst(focus: &'static str, seed: u64, index: u64) -> CaseOut {
    let mut rng = rt::rng_for(seed, index, 0xB0);
    let threads = *rng.pick(&[1usize, 2, 3, 4, 8, 16]);
    let burst = *rng.pick(&[10usize, 30, 100, 300]);
    let cmd_buf = *rng.pick(&[1usize, 1, 2, 3, 8, 32_768]);
    let slow = *rng.pick(&[(0u64, 0u64), (0, 40), (300, 80), (0, 200)]);
    // every fourth case: a cache so small that the puts of the burst evict each other, with reader threads feeding the access-count consumer
    // (the worker's admission path then races the consumer for the sketch while the queue is full)
    let crowded = index % 4 == 2;
    let sutcfg = SutCfg { counters: 100, capacity: 64, max_weight: if crowded { 120 } else { 100_000_000 }, shards: 2, cmd_buf, pool: 1, buf: if crowded { 1 } else { 4 }, tick: Duration::from_millis(1),
        weight_mode: WeightMode::Default, hash_mode: HashMode::Default, start_ns: rt::START_NS };
    let case = J::obj().with("engine", J::s("conc")).with("scenario", J::s("burst")).with("evictions_and_readers", J::Bool(crowded)).with("focus", J::s(focus)).with("seed", J::Int(seed as i128))
        .with("index", J::Int(index as i128)).with("threads", J::u(threads)).with("burst", J::u(burst)).with("command_buffer_size", J::u(cmd_buf))
        .with("worker_delay_permille_spin_sleep", J::s(format!("{:?}", slow))).with("time_to_live_keys_expire_during_the_burst", J::Bool(index % 2 == 1));
    let mut counts = Counts::default();
    let mut findings = Vec::new();
    // keep the event log; slow the worker only (so that the queue really fills)
    let r = recorder();
    rt::clear_abort();
    r.keep.store(true, Ordering::SeqCst);
    r.track_acked.store(false, Ordering::SeqCst);
    let _ = r.take_events();
    let _ = r.take_weight_violations();
    sched().release_all();
    sched().set_random(rng.next(), 0, slow.0, slow.1);
    sched().quiet_mask.store(only_sites(&[Site::WorkerDequeued, Site::WorkerBeforeAck]), Ordering::SeqCst);
    // expiring bursts: the sweeper lingers (holding its shard) before each of its first evictions, so that the worker's deletes of
    // time-to-live keys land inside a sweep
    if index % 2 == 1 { sched().force_delay(Site::SweepBeforeEvict, 200 + rng.below(400), 60); }
    let panic_mark = rt::panic_count();
    let sut = Sut::new(sutcfg);
    let keys = rng.range(2, 6);
    // every second case: the time-to-live puts expire while the burst runs (sweeps race the worker's deletes of those keys)
    let expiring = index % 2 == 1;
    let stop_clock = Arc::new(AtomicBool::new(false));
    let advancer = if expiring {
        let (clock, stop) = (sut.clock.clone(), stop_clock.clone());
        Some(thread::spawn(move || { rt::register_helper_thread(); while !stop.load(Ordering::Relaxed) { clock.advance(NS / 2); thread::sleep(Duration::from_micros(250)); } }))
    } else { None };
    let readers_stop = Arc::new(AtomicBool::new(false));
    let readers: Vec<thread::JoinHandle<u64>> = if crowded {
        (0..2).map(|r| { let (cache, stop) = (sut.cache.clone(), readers_stop.clone()); thread::spawn(move || {
            rt::register_helper_thread();
            let mut n = 0u64;
            while !stop.load(Ordering::Relaxed) && !rt::aborted() { let _ = cache.get(&(1 + (n + r) % 6)); n += 1; if n % 64 == 0 { thread::yield_now(); } }
            n
        }) }).collect()
    } else { Vec::new() };
    let full_sends = Arc::new(AtomicU64::new(0));
    let mut crew: rt::Crew<(Vec<Sub>, u64)> = rt::Crew::new();
    for t in 0..threads {
        let cache = sut.cache.clone();
        let mut rng = rt::rng_for(seed, index, 200 + t as u64);
        let full_sends = full_sends.clone();
        crew.spawn(move || {
            let me = t as u64 + 1;
            let mut subs: Vec<Sub> = Vec::new();
            let mut immediate = 0u64;
            let mut counter = 0u64;
            for n in 0..burst {
                counter += 1;
                // every third pair is "put then delete of a private key, nothing awaited" (must leave the key absent)
                let private = 500 + me * 1000 + (n as u64 / 2);
                let op = if n % 6 == 0 { WriteOp::PutW { key: private, value: token(private, me, counter), weight: 3 } }
                    else if n % 6 == 1 { WriteOp::Delete { key: 500 + me * 1000 + ((n as u64 - 1) / 2) } }
                    else {
                        let key = rng.range(1, keys);
                        match rng.below(5) {
                            0..=1 => WriteOp::PutW { key, value: token(key, me, counter), weight: rng.range(1, 9) as i64 },
                            2 => WriteOp::Upsert { key, value: Some(token(key, me, counter)), weight: Some(rng.range(1, 9) as i64), ttl: None, remove_ttl: false },
                            3 => WriteOp::PutWTtl { key, value: token(key, me, counter), weight: rng.range(30, 40) as i64, ttl: Duration::from_secs(if expiring { 1 + n as u64 % 3 } else { 3600 }) },
                            _ => WriteOp::Delete { key },
                        }
                    };
                if cache.verif_command_queue_len() >= cmd_buf { full_sends.fetch_add(1, Ordering::Relaxed); }
                let call = rt::stamp();
                let issued = issue(&cache, &op);
                let ret = rt::stamp();
                if let Issued::Ack(ack, uid) = issued {
                    if uid == 0 { immediate += 1; continue; }
                    let waker = Arc::new(StampWaker { woke_at: AtomicU64::new(0), wakes: AtomicU64::new(0), thread: thread::current() });
                    let first = poll_with(&ack, &waker);
                    let (pending, status) = match first { Poll::Pending => (true, None), Poll::Ready(s) => (false, Some(s)) };
                    let seq = subs.len();
                    subs.push(Sub { uid, thread: me, call, ret, op, first_poll_pending: pending, waker, ack, status, seq });
                }
            }
            // now wait for every acknowledgement: park until its own waker fired, then poll again
            let started = Instant::now();
            for sub in subs.iter_mut() {
                while sub.status.is_none() {
                    if sub.waker.wakes.load(Ordering::SeqCst) > 0 {
                        if let Poll::Ready(s) = poll_with(&sub.ack, &sub.waker) { sub.status = Some(s); break; }
                    }
                    thread::park_timeout(Duration::from_millis(2));
                    if started.elapsed() > Duration::from_secs(60) { break; }
                }
            }
            (subs, immediate)
        });
    }
    let mut subs: Vec<Sub> = Vec::new();
    match crew.join("the writers of a burst to finish") {
        Ok(results) => for (s, immediate) in results { counts.add("writes_answered_on_the_spot", immediate); subs.extend(s); },
        Err(Waited::Deadlock(description)) => fail(&mut findings, &["C18", "C11"], "C18/deadlock/burst-writers-stuck".into(), format!("writers never returned from their calls: {}", description), case.clone()),
        Err(other) => findings.push(Finding { props: vec!["C11"], signature: "inconclusive/burst-writers".into(), detail: waited_name(&other), witness: J::Null, inconclusive: true }),
    }
    stop_clock.store(true, Ordering::SeqCst);
    readers_stop.store(true, Ordering::SeqCst);
    if let Some(a) = advancer { let _ = a.join(); }
    if crowded { if let Some(reads) = rt::join_helpers("the readers of a crowded burst to finish", readers) { counts.add("reads_racing_a_crowded_burst", reads.into_iter().sum()); counts.inc("bursts_with_evictions_and_readers"); } }
    sched().quiet();
    sched().quiet_mask.store(0, Ordering::SeqCst);
    let quiesced = sut.quiesce();
    let events = r.take_events();
    counts.add("commands_submitted", subs.len() as u64);
    if expiring { counts.inc("bursts_with_expiring_keys"); }
    counts.add("sends_that_found_the_queue_full", full_sends.load(Ordering::Relaxed));
    let by_uid: HashMap<u64, &Sub> = subs.iter().map(|s| (s.uid, s)).collect();
    let witness_for = |uids: &[u64]| {
        let mut ops = J::arr();
        for uid in uids { if let Some(s) = by_uid.get(uid) { ops.push(J::obj().with("uid", J::Int(*uid as i128)).with("thread", J::Int(s.thread as i128)).with("call", J::Int(s.call as i128)).with("ret", J::Int(s.ret as i128)).with("op", s.op.to_json())); } }
        case.clone().with("operations", ops)
    };
    if let Err(waited) = quiesced {
        match waited {
            Waited::Deadlock(d) => fail(&mut findings, &["C18", "C11"], "C18/deadlock/burst".into(), d, case.clone()),
            other => findings.push(Finding { props: vec!["C11"], signature: "inconclusive/burst-quiesce".into(), detail: waited_name(&other), witness: J::Null, inconclusive: true }),
        }
    }
    // 1. exactly once, 2. one at a time
    let mut begins: BTreeMap<u64, u64> = BTreeMap::new();   // uid -> stamp
    let mut ends: BTreeMap<u64, (u64, CommandStatus)> = BTreeMap::new();
    let mut exec_order: Vec<u64> = Vec::new();
    let mut open: Option<u64> = None;
    let mut sent: BTreeSet<u64> = BTreeSet::new();
    // uids are process-wide and increasing: a worker event whose uid is below the first uid sent in this case belongs to the
    // cache of an earlier case (its worker may handle its last queued command while that cache is being dropped)
    let first_uid = events.iter().filter_map(|r| if let Event::Sent { uid, .. } = &r.event { Some(*uid) } else { None }).min().unwrap_or(0);
    let stale = |uid: &u64| *uid < first_uid;
    for rec in &events {
        match &rec.event {
            Event::ExecBegin { uid, .. } | Event::ExecEnd { uid, .. } if stale(uid) => { counts.inc("events_of_an_earlier_cache_ignored"); }
            Event::Sent { uid, .. } => { sent.insert(*uid); }
            Event::ExecBegin { uid, .. } => {
                if let Some(o) = open { fail(&mut findings, &["C11"], "C11/overlapping-execution".into(), format!("command {} began while command {} was still executing", uid, o), witness_for(&[o, *uid])); }
                if begins.insert(*uid, rec.stamp).is_some() { fail(&mut findings, &["C11"], "C11/executed-twice".into(), format!("command {} was executed twice", uid), witness_for(&[*uid])); }
                if !sent.contains(uid) { fail(&mut findings, &["C11"], "C11/executed-but-never-sent".into(), format!("command {} was executed but no client sent it", uid), case.clone()); }
                exec_order.push(*uid);
                open = Some(*uid);
            }
            Event::ExecEnd { uid, status } => {
                if open != Some(*uid) { fail(&mut findings, &["C11"], "C11/end-without-begin".into(), format!("command {} ended but {:?} was executing", uid, open), witness_for(&[*uid])); }
                ends.insert(*uid, (rec.stamp, *status));
                open = None;
            }
            _ => {}
        }
    }
    for sub in &subs {
        if !begins.contains_key(&sub.uid) {
            fail(&mut findings, &["C11"], "C11/queued-write-never-executed".into(), format!("{} (uid {}) was queued but never executed", sub.op.shape(), sub.uid), witness_for(&[sub.uid]));
        }
        match (&sub.status, ends.get(&sub.uid)) {
            (Some(status), Some((_, real))) if status != real => fail(&mut findings, &["C12", "C11"], "C12/status-differs-from-execution".into(),
                format!("{} (uid {}) was acknowledged {} but ended with {}", sub.op.shape(), sub.uid, status_name(status), status_name(real)), witness_for(&[sub.uid])),
            (None, _) => fail(&mut findings, &["C12", "C11"], "C12/acknowledgement-never-resolved".into(), format!("{} (uid {}) never resolved although all commands were executed", sub.op.shape(), sub.uid), witness_for(&[sub.uid])),
            (Some(CommandStatus::Pending), _) => fail(&mut findings, &["C12"], "C12/ready-pending".into(), format!("{} resolved to the placeholder Pending", sub.op.shape()), witness_for(&[sub.uid])),
            _ => {}
        }
    }
    counts.add("commands_executed", begins.len() as u64);
    // 3. order: per thread, and across threads when one call returned before the other was invoked
    let position: HashMap<u64, usize> = exec_order.iter().enumerate().map(|(i, uid)| (*uid, i)).collect();
    let mut per_thread: BTreeMap<u64, Vec<&Sub>> = BTreeMap::new();
    for sub in &subs { per_thread.entry(sub.thread).or_default().push(sub); }
    for (_, list) in per_thread.iter() {
        for pair in list.windows(2) {
            if let (Some(a), Some(b)) = (position.get(&pair[0].uid), position.get(&pair[1].uid)) {
                counts.inc("same_thread_ordered_pairs_checked");
                if a > b { fail(&mut findings, &["C11"], "C11/per-thread-order-violated".into(),
                    format!("thread {} submitted uid {} before uid {} but they were executed in the opposite order", pair[0].thread, pair[0].uid, pair[1].uid), witness_for(&[pair[0].uid, pair[1].uid])); }
            }
        }
        // acknowledgement completion order of the thread's queued writes that were still pending at their first poll
        let pending: Vec<&&Sub> = list.iter().filter(|s| s.first_poll_pending).collect();
        for pair in pending.windows(2) {
            let (a, b) = (pair[0].waker.woke_at.load(Ordering::SeqCst), pair[1].waker.woke_at.load(Ordering::SeqCst));
            if a != 0 && b != 0 {
                counts.inc("wake_order_pairs_checked");
                if a > b { fail(&mut findings, &["C11"], "C11/acknowledgements-completed-out-of-order".into(),
                    format!("thread {}: uid {} (submitted first) was woken at {} after uid {} at {}", pair[0].thread, pair[0].uid, a, pair[1].uid, b), witness_for(&[pair[0].uid, pair[1].uid])); }
            }
        }
    }
    let mut by_ret: Vec<&Sub> = subs.iter().collect();
    by_ret.sort_by_key(|s| s.ret);
    // cross-thread real-time order: for each command B, every command A with ret(A) < call(B) must execute first.
    // It suffices to compare B with the A of maximal execution position among those that returned before B was invoked.
    let mut by_call: Vec<&Sub> = subs.iter().collect();
    by_call.sort_by_key(|s| s.call);
    let mut cursor = 0;
    let mut latest: Option<(&Sub, usize)> = None;
    for b in by_call {
        while cursor < by_ret.len() && by_ret[cursor].ret < b.call {
            if let Some(p) = position.get(&by_ret[cursor].uid) { if latest.map(|l| *p > l.1).unwrap_or(true) { latest = Some((by_ret[cursor], *p)); } }
            cursor += 1;
        }
        if let (Some((a, pa)), Some(pb)) = (latest, position.get(&b.uid)) {
            if a.thread != b.thread { counts.inc("cross_thread_ordered_pairs_checked"); }
            if pa > *pb { fail(&mut findings, &["C11"], "C11/real-time-order-violated".into(),
                format!("uid {} returned (stamp {}) before uid {} was invoked (stamp {}) but was executed after it", a.uid, a.ret, b.uid, b.call), witness_for(&[a.uid, b.uid])); }
        }
    }
    // 6/7. final contents = sequential replay of the executed commands (no memory pressure)
    let mut present: BTreeMap<u64, u64> = BTreeMap::new();
    let (mut adds, mut deletes) = (0u64, 0u64);
    for uid in &exec_order {
        let sub = match by_uid.get(uid) { Some(s) => s, None => continue };
        let status = ends.get(uid).map(|e| e.1);
        match (&sub.op, status) {
            (op, Some(CommandStatus::Accepted)) if op.is_put() || matches!(op, WriteOp::Upsert { .. }) => {
                // an upsert that queued UpdateWeight changes nothing here; one that queued a put adds the key
                let queued_put = events.iter().any(|e| matches!(&e.event, Event::ExecBegin { uid: u, kind, .. } if u == uid && matches!(kind, CommandKind::Put | CommandKind::PutWithTTL)));
                if queued_put { present.insert(op.key(), op.value().unwrap_or(0)); adds += 1; }
            }
            (WriteOp::Delete { key }, Some(CommandStatus::Accepted)) => { present.remove(key); deletes += 1; }
            _ => {}
        }
    }
    if quiesced_ok(&findings) && !expiring && !crowded {
        let snapshot = sut.snapshot();
        let held: BTreeSet<u64> = snapshot.stored.iter().map(|e| e.0).collect();
        let expected: BTreeSet<u64> = present.keys().copied().collect();
        // upserts applied in place do not pass through the queue: only presence is compared
        if held != expected {
            fail(&mut findings, &["C11", "C05"], "C11/final-contents-differ-from-executed-commands".into(),
                 format!("keys held {:?} but replaying the executed commands in order leaves {:?}", held, expected), case.clone());
        }
        for key in held.iter().filter(|k| **k >= 500) {
            fail(&mut findings, &["C11"], "C11/put-then-delete-left-the-key-present".into(), format!("private key {} is present although its put was followed by a delete (nothing awaited)", key), case.clone());
        }
        let (added, deleted) = (sut.stat(StatsType::KeysAdded), sut.stat(StatsType::KeysDeleted));
        if added != adds || deleted != deletes {
            fail(&mut findings, &["C11", "C16"], "C11/keys-added-deleted-differ-from-executed-commands".into(),
                 format!("KeysAdded {} / KeysDeleted {} but {} puts and {} deletes were executed and accepted", added, deleted, adds, deletes), case.clone());
        }
        counts.inc("final_content_checks");
    }
    let mut signature = 0xB0u64;
    for uid in exec_order.iter().take(4000) { if let Some(s) = by_uid.get(uid) { signature = fnv_step(signature, s.thread << 32 | s.seq as u64); } }
    let nontrivial = subs.len() >= 10 && (threads == 1 || counts.get("cross_thread_ordered_pairs_checked") > 0);
    let sample = case.clone().with("first_executed", J::Arr(exec_order.iter().take(10).map(|u| J::Int(*u as i128)).collect()));
    let _ = panic_mark;
    if let Err(waited) = sut.finish_or_leak() { if findings.is_empty() { findings.push(Finding { props: vec!["C13"], signature: "inconclusive/finish".into(), detail: waited_name(&waited), witness: J::Null, inconclusive: true }); } }
    r.track_acked.store(true, Ordering::SeqCst);
    counts.inc("cases");
    CaseOut { findings, counts, signature, nontrivial, sample }
}

fn quiesced_ok(findings: &[Finding]) -> bool { !findings.iter().any(|f| f.signature.starts_with("C18/") || f.inconclusive) }

// ------------------------------------------------------------------------------------------------ C13: shutdown

pub fn run_shutdown(focus: &'static str, seed: u64, index: u64) -> CaseOut {
    let mut rng = rt::rng_for(seed, index, 0x5D);
    let writers = *rng.pick(&[2usize, 4, 8, 16]);
    let shutters = *rng.pick(&[1usize, 1, 2, 3]);
    let cmd_buf = *rng.pick(&[1usize, 2, 8]);
    let directed = index % 3 == 0;
    let perturb = *rng.pick(&[(0u64, 0u64, 0u64), (100, 50, 10), (20, 100, 20)]);
    let sutcfg = SutCfg { counters: 100, capacity: 64, max_weight: *rng.pick(&[200i64, 1_000_000]), shards: 2, cmd_buf, pool: 1, buf: 2, tick: Duration::from_millis(1),
        weight_mode: WeightMode::Default, hash_mode: HashMode::Default, start_ns: rt::START_NS };
    let case = J::obj().with("engine", J::s("conc")).with("scenario", J::s("shutdown")).with("focus", J::s(focus)).with("seed", J::Int(seed as i128))
        .with("index", J::Int(index as i128)).with("writers", J::u(writers)).with("shutdown_callers", J::u(shutters)).with("command_buffer_size", J::u(cmd_buf))
        .with("directed_hold_of_a_write_past_the_flag_check", J::Bool(directed));
    let mut counts = Counts::default();
    let mut findings = Vec::new();
    let r = recorder();
    rt::clear_abort();
    r.keep.store(true, Ordering::SeqCst);
    r.track_acked.store(true, Ordering::SeqCst);
    let _ = r.take_events();
    let _ = r.take_weight_violations();
    r.clear_acked();
    sched().release_all();
    sched().set_random(rng.next(), perturb.0, perturb.1, perturb.2);
    sched().quiet_mask.store(0, Ordering::SeqCst);
    let panic_mark = rt::panic_count();
    let sut = Sut::new(sutcfg);
    let marks = sut.marks;
    let shutdown_returned = Arc::new(AtomicU64::new(0)); // stamp at which the first shutdown() call returned
    let go = Arc::new(AtomicBool::new(false));
    let mut writer_crew: rt::Crew<(Client, Vec<(u64, String)>)> = rt::Crew::new();
    for t in 0..writers {
        let cache = sut.cache.clone();
        let mut rng = rt::rng_for(seed, index, 300 + t as u64);
        let (shutdown_returned, go) = (shutdown_returned.clone(), go.clone());
        writer_crew.spawn(move || {
            let mut client = Client::new(t as u64 + 1);
            client.pre_poll_every = 3;
            let mut post: Vec<(u64, String)> = Vec::new();
            while !go.load(Ordering::SeqCst) { thread::yield_now(); }
            let mut after = 0;
            for n in 0..4000u64 {
                if rt::aborted() { break; }
                let key = rng.range(1, 6);
                let known_down = shutdown_returned.load(Ordering::SeqCst);
                let before = rt::stamp();
                if rng.chance(1, 4) {
                    let got = client.read(&cache, key, (n % 7) as usize);
                    if known_down != 0 && known_down < before { if let Some(v) = got { post.push((before, format!("{} returned {:#x}", READ_VARIANTS[(n % 7) as usize], v))); } }
                } else {
                    let value = client.token(key);
                    let op = match rng.below(4) { 0 => WriteOp::PutW { key, value, weight: 5 }, 1 => WriteOp::Upsert { key, value: Some(value), weight: Some(6), ttl: None, remove_ttl: false },
                        2 => WriteOp::PutTtl { key, value, ttl: Duration::from_secs(100) }, _ => WriteOp::Delete { key } };
                    let i = client.write(&cache, op);
                    if known_down != 0 && known_down < before {
                        if let Outcome::Write { error: None, panicked: None, .. } = &client.log[i].outcome { post.push((before, format!("{} returned Ok", client.log[i].to_json().render()))); }
                    }
                }
                if known_down != 0 { after += 1; if after > 30 { break; } }
            }
            client.settle_all(&marks);
            (client, post)
        });
    }
    let mut shut_crew: rt::Crew<(u64, u64, Vec<String>)> = rt::Crew::new();
    let from_closure = if index % 4 == 1 { 1 + (index / 4) % 2 } else { 0 };
    if from_closure != 0 {
        // keys 1 and 2 are there, so that the mapping function really runs
        let mut setup = Client::new(90);
        for key in [1u64, 2] { let value = setup.token(key); setup.write(&sut.cache, WriteOp::PutW { key, value, weight: 5 }); }
        setup.settle_all(&marks);
        counts.inc("shutdowns_called_from_inside_a_mapping_function");
    }
    for s in 0..shutters {
        let cache = sut.cache.clone();
        let (shutdown_returned, go) = (shutdown_returned.clone(), go.clone());
        let delay_us = rng.range(0, 3000);
        shut_crew.spawn(move || {
            while !go.load(Ordering::SeqCst) { thread::yield_now(); }
            thread::sleep(Duration::from_micros(delay_us + s as u64 * 50));
            let call = rt::stamp();
            // every fourth case the first caller shuts the cache down from inside a mapping function that the cache itself is running
            // (map_get / the mapping iterator): no reference guard is held by the caller, so shutdown() must return there too
            match (s, from_closure) {
                (0, 1) => { if cache.map_get(&1, |v| { cache.shutdown(); v }).is_none() { cache.shutdown(); } }
                (0, 2) => { if cache.multi_get_map_iterator(vec![&1, &2], |v| { cache.shutdown(); v }).next().flatten().is_none() { cache.shutdown(); } }
                _ => cache.shutdown(),
            }
            let ret = rt::stamp();
            let _ = shutdown_returned.compare_exchange(0, ret, Ordering::SeqCst, Ordering::SeqCst);
            // every API after shutdown() returned on this thread
            let mut bad = Vec::new();
            for v in 0..7 { if let Some(x) = read(&cache, v, 1) { bad.push(format!("{} returned {:#x}", READ_VARIANTS[v], x)); } }
            if !cache.multi_get(vec![&1, &2]).is_empty() { bad.push("multi_get returned a non-empty map".into()); }
            if cache.multi_get_iterator(vec![&1, &2]).next().is_some() { bad.push("multi_get_iterator yielded an item".into()); }
            for op in [WriteOp::Put { key: 1, value: 1 }, WriteOp::PutW { key: 1, value: 1, weight: 1 }, WriteOp::PutTtl { key: 1, value: 1, ttl: Duration::from_secs(1) },
                       WriteOp::PutWTtl { key: 1, value: 1, weight: 1, ttl: Duration::from_secs(1) }, WriteOp::Upsert { key: 1, value: Some(1), weight: None, ttl: None, remove_ttl: false }, WriteOp::Delete { key: 1 }] {
                match issue(&cache, &op) { Issued::SendError(_) => {}, Issued::Ack(..) => bad.push(format!("{} returned Ok", op.shape())), Issued::Panicked(m) => bad.push(format!("{} panicked: {}", op.shape(), m)) }
            }
            cache.shutdown(); // idempotent
            (call, ret, bad)
        });
    }
    // directed: hold one writer between the flag check and the send until Shutdown is queued
    if directed { sched().arm(Site::SendBefore, 0); }
    go.store(true, Ordering::SeqCst);
    if directed {
        if sched().wait_holding(Site::SendBefore, Duration::from_secs(3)) { counts.inc("writes_held_past_the_flag_check"); }
        // the held thread may be a shutdown caller itself (its own send); either way release after a moment
        let started = Instant::now();
        while shutdown_returned.load(Ordering::SeqCst) == 0 && started.elapsed() < Duration::from_millis(300) { thread::sleep(Duration::from_micros(100)); }
        sched().release(Site::SendBefore);
    }
    let mut post_calls = 0;
    let expected_shutters = shut_crew.len();
    match shut_crew.join("shutdown() to return") {
        Ok(results) => {
            if results.len() != expected_shutters { fail(&mut findings, &["C13", "C17"], "C13/shutdown-panicked".into(), "shutdown() panicked".into(), case.clone()); }
            for (_, _, bad) in results { post_calls += 21; for b in bad { fail(&mut findings, &["C13"], format!("C13/api-works-after-shutdown/{}", b.split(' ').next().unwrap_or("?")), format!("after shutdown() returned on the same thread: {}", b), case.clone()); } }
        }
        Err(Waited::Deadlock(description)) => fail(&mut findings, &["C13", "C18"], "C13/shutdown-never-returned".into(), format!("shutdown() did not return: every thread is blocked and nothing progresses: {}", description), case.clone()),
        Err(other) => findings.push(Finding { props: vec!["C13"], signature: "inconclusive/shutdown-callers".into(), detail: waited_name(&other), witness: J::Null, inconclusive: true }),
    }
    counts.add("post_shutdown_api_calls_checked", post_calls);
    counts.add("concurrent_shutdown_calls", shutters as u64);
    let mut logs: Vec<OpRec> = Vec::new();
    match writer_crew.join("the writers around shutdown to finish") {
        Ok(results) => for (client, post) in results {
            counts.add("acknowledgements_first_polled_by_another_task", client.pre_polls);
            logs.extend(client.log);
            for (at, what) in post { fail(&mut findings, &["C13"], "C13/api-works-after-shutdown/other-thread".into(), format!("at stamp {} (after shutdown() had returned elsewhere): {}", at, what), case.clone()); }
        },
        Err(Waited::Deadlock(description)) => {
            let awaiting = rt::awaiting_now();
            if awaiting > 0 { fail(&mut findings, &["C13", "C12", "C18"], "C13/acknowledgement-never-resolved-around-shutdown".into(), format!("{} writer(s) are parked awaiting acknowledgements that never resolve: {}", awaiting, description), case.clone()); }
            else { fail(&mut findings, &["C13", "C18"], "C13/writers-stuck-around-shutdown".into(), format!("writer threads never returned from their calls: {}", description), case.clone()); }
        }
        Err(other) => findings.push(Finding { props: vec!["C13"], signature: "inconclusive/writers".into(), detail: waited_name(&other), witness: J::Null, inconclusive: true }),
    }
    sched().quiet();
    let witness = |recs: &[&OpRec]| case.clone().with("operations", J::Arr(recs.iter().map(|r| r.to_json()).collect()));
    check_ack_outcomes(&logs, true, &mut counts, &mut findings, &witness, panic_mark);
    // every acknowledgement carries the real outcome: ExecEnd status if the command ran, ShuttingDown if drained
    let events = r.take_events();
    let mut ran: HashMap<u64, CommandStatus> = HashMap::new();
    let mut drained: BTreeSet<u64> = BTreeSet::new();
    let mut shutdown_cmds = 0;
    let first_uid = events.iter().filter_map(|r| if let Event::Sent { uid, .. } = &r.event { Some(*uid) } else { None }).min().unwrap_or(0);
    for rec in &events {
        match &rec.event {
            Event::ExecBegin { uid, .. } | Event::ExecEnd { uid, .. } | Event::Drained { uid } if *uid < first_uid => { counts.inc("events_of_an_earlier_cache_ignored"); }
            Event::ExecEnd { uid, status } => { ran.insert(*uid, *status); }
            Event::Drained { uid } => { drained.insert(*uid); }
            Event::ExecBegin { kind: CommandKind::Shutdown, .. } => { shutdown_cmds += 1; }
            _ => {}
        }
    }
    if shutdown_cmds > 1 { fail(&mut findings, &["C13"], "C13/more-than-one-shutdown-command".into(), format!("{} Shutdown commands were executed", shutdown_cmds), case.clone()); }
    for rec in &logs {
        if let Outcome::Write { op, uid, status: Some(Waited::Ready(status)), .. } = &rec.outcome {
            if *uid == 0 { continue; }
            if let Some(real) = ran.get(uid) {
                counts.inc("acknowledgements_of_commands_that_ran");
                if real != status { fail(&mut findings, &["C13", "C12"], "C13/status-differs-from-execution".into(), format!("{} (uid {}) ran and ended {} but was acknowledged {}", op.shape(), uid, status_name(real), status_name(status)), witness(&[rec])); }
            } else if drained.contains(uid) {
                counts.inc("acknowledgements_of_commands_behind_shutdown");
                if *status != CommandStatus::ShuttingDown { fail(&mut findings, &["C13", "C12"], "C13/drained-command-not-shutting-down".into(), format!("{} (uid {}) was queued behind Shutdown but acknowledged {}", op.shape(), uid, status_name(status)), witness(&[rec])); }
            } else {
                fail(&mut findings, &["C13", "C11"], "C13/acknowledged-without-execution-or-drain".into(), format!("{} (uid {}) was acknowledged {} but neither ran nor was drained", op.shape(), uid, status_name(status)), witness(&[rec]));
            }
        }
    }
    counts.add("client_operations", logs.len() as u64);
    let signature = fnv_step(fnv_step(fnv_step(0x5D, counts.get("acknowledgements_of_commands_behind_shutdown")), counts.get("acknowledgements_of_commands_that_ran")), writers as u64 * 16 + shutters as u64);
    let nontrivial = counts.get("acknowledgements_of_commands_that_ran") > 0;
    let sample = case.clone().with("ran", J::Int(counts.get("acknowledgements_of_commands_that_ran") as i128)).with("behind_shutdown", J::Int(counts.get("acknowledgements_of_commands_behind_shutdown") as i128));
    if let Err(waited) = sut.finish_or_leak() {
        match waited {
            Waited::Deadlock(d) => fail(&mut findings, &["C13", "C18"], "C13/shutdown-stuck".into(), d, case.clone()),
            other => findings.push(Finding { props: vec!["C13"], signature: "inconclusive/finish".into(), detail: waited_name(&other), witness: J::Null, inconclusive: true }),
        }
    }
    counts.inc("cases");
    CaseOut { findings, counts, signature, nontrivial, sample }
}

// ------------------------------------------------------------------------------------------------ C15: stalled consumer

static PANICKING_CLOSURES: AtomicU64 = AtomicU64::new(0);

pub fn run_stall(focus: &'static str, seed: u64, index: u64) -> CaseOut {
    let mut rng = rt::rng_for(seed, index, 0x57);
    // sizes down to 1, the defaults (32 x 64), and sizes beyond any internal chunking (a buffer of 300 or 1000 records, a pool of 300 or 1024 buffers)
    let (pool, buf) = *rng.pick(&[(1usize, 1usize), (1, 2), (1, 64), (2, 1), (2, 2), (2, 64), (32, 1), (32, 2), (32, 64), (1, 300), (2, 1000), (300, 1), (1024, 2)]);
    let readers = *rng.pick(&[1usize, 2, 4, 8, 16]);
    let variant = index % 3; // 0: gate (no lock held), 1: slow consumer (delays), 2: free-running with inequality sampling
    let sutcfg = SutCfg { counters: *rng.pick(&[1u64, 2, 10, 1000]), capacity: 64, max_weight: 1_000_000, shards: 2, cmd_buf: 64, pool, buf, tick: Duration::from_millis(1),
        weight_mode: WeightMode::Default, hash_mode: if rng.chance(1, 3) { HashMode::Constant } else { HashMode::Default }, start_ns: rt::START_NS };
    let case = J::obj().with("engine", J::s("conc")).with("scenario", J::s("stall")).with("focus", J::s(focus)).with("seed", J::Int(seed as i128))
        .with("index", J::Int(index as i128)).with("pool", J::u(pool)).with("buffer", J::u(buf)).with("readers", J::u(readers)).with("variant", J::Int(variant as i128));
    let mut counts = Counts::default();
    let mut findings = Vec::new();
    let r = recorder();
    rt::clear_abort();
    r.keep.store(false, Ordering::SeqCst);
    let _ = r.take_events();
    sched().release_all();
    sched().quiet();
    let sut = Sut::new(sutcfg);
    let marks = sut.marks;
    let mut setup = Client::new(1);
    for key in 1..=4u64 { let value = setup.token(key); setup.write(&sut.cache, WriteOp::PutW { key, value, weight: 5 }); }
    setup.settle_all(&marks);
    let stat = |t: StatsType| sut.stat(t);
    let reads_target = (pool * buf * 12 + 50) as u64;
    if variant == 0 {
        sched().arm(Site::ConsumerBeforeApply, 0);
    } else if variant == 1 {
        sched().set_random(rng.next(), 0, 0, 600);
        sched().quiet_mask.store(only_sites(&[Site::ConsumerBeforeApply, Site::ConsumerApplied]), Ordering::SeqCst);
    }
    let stop = Arc::new(AtomicBool::new(false));
    let violations: Arc<Mutex<Vec<String>>> = Arc::new(Mutex::new(Vec::new()));
    // sampler: added + dropped + buffered <= hits, reading in that order (immune to skew)
    let sampler = {
        let (cache, stop, violations) = (sut.cache.clone(), stop.clone(), violations.clone());
        thread::spawn(move || {
            rt::register_helper_thread();
            let mut samples = 0u64;
            while !stop.load(Ordering::Relaxed) {
                let summary = cache.stats_summary();
                let added = summary.get(&StatsType::AccessAdded).unwrap_or(0);
                let dropped = summary.get(&StatsType::AccessDropped).unwrap_or(0);
                let buffered = cache.verif_buffered_hits() as u64;
                let hits = cache.stats_summary().get(&StatsType::CacheHits).unwrap_or(0);
                samples += 1;
                if added + dropped + buffered > hits {
                    let mut v = violations.lock().unwrap();
                    if v.len() < 4 { v.push(format!("added {} + dropped {} + buffered {} > hits {}", added, dropped, buffered, hits)); }
                }
                thread::yield_now();
            }
            samples
        })
    };
    let mut handles = Vec::new();
    let done_reads = Arc::new(AtomicU64::new(0));
    for t in 0..readers {
        let (cache, done_reads) = (sut.cache.clone(), done_reads.clone());
        let mut rng = rt::rng_for(seed, index, 400 + t as u64);
        handles.push(thread::spawn(move || {
            let mut hits = 0u64;
            let mut lookups = 0u64;
            for n in 0..reads_target {
                let key = if rng.chance(4, 5) { rng.range(1, 4) } else { rng.range(50, 60) };
                // now and then the client's mapping function panics under the reference guard (the panic is caught here, as an application
                // would): the lookup was counted as a hit by then, so its access record must exist all the same
                if n % 11 == 5 {
                    let outcome = std::panic::catch_unwind(std::panic::AssertUnwindSafe(|| cache.map_get_ref(&key, |_stored| -> u64 { panic!("harness: a mapping function that panics") })));
                    lookups += 1;
                    if outcome.is_err() { hits += 1; PANICKING_CLOSURES.fetch_add(1, Ordering::Relaxed); }
                    done_reads.fetch_add(1, Ordering::Relaxed);
                    continue;
                }
                let got = read(&cache, (n % 7) as usize, key);
                lookups += 1;
                if got.is_some() { hits += 1; }
                done_reads.fetch_add(1, Ordering::Relaxed);
            }
            (hits, lookups)
        }));
    }
    // readers must finish although the consumer is stalled: decided by completion vs. the logical hang condition
    let total_reads = reads_target * readers as u64;
    let finished = rt::wait_until("readers to finish while the consumer is stalled", || done_reads.load(Ordering::Relaxed) >= total_reads);
    counts.add("hits_whose_mapping_function_panicked", PANICKING_CLOSURES.swap(0, Ordering::Relaxed));
    let stalled = variant == 0 && sched().is_holding(Site::ConsumerBeforeApply);
    if stalled { counts.inc("runs_with_the_consumer_held_at_the_gate"); counts.add("reads_performed_during_a_stall", done_reads.load(Ordering::Relaxed)); }
    if let Err(waited) = finished {
        sched().release_all();
        match waited {
            Waited::Deadlock(d) => fail(&mut findings, &["C15", "C18"], format!("C15/reads-blocked-by-the-counting-pipeline/variant={}", variant), format!("readers stopped making progress with the consumer stalled: {}", d), case.clone()),
            other => findings.push(Finding { props: vec!["C15"], signature: "inconclusive/stall".into(), detail: waited_name(&other), witness: J::Null, inconclusive: true }),
        }
    }
    let (mut hits_seen, mut lookups) = (0u64, 0u64);
    for handle in handles { if let Ok((h, l)) = handle.join() { hits_seen += h; lookups += l; } }
    if stalled {
        let dropped = stat(StatsType::AccessDropped);
        let capacity = (pool * buf) as u64 + 10 * buf as u64 + buf as u64; // buffers + channel of 10 + the batch held by the consumer
        if hits_seen > capacity + buf as u64 && dropped == 0 {
            fail(&mut findings, &["C15"], "C15/nothing-dropped-with-a-stalled-consumer".into(), format!("{} hits were recorded with the consumer stalled (room for {}), yet AccessDropped is 0", hits_seen, capacity), case.clone());
        }
        if dropped > 0 { counts.inc("runs_where_buffers_were_dropped"); }
    }
    sched().release_all();
    sched().quiet();
    sched().quiet_mask.store(0, Ordering::SeqCst);
    stop.store(true, Ordering::SeqCst);
    // the sampler calls the API too: not joined blindly
    if let Some(samples) = rt::join_helpers("the sampler of a stall run to finish", vec![sampler]) { counts.add("identity_samples_while_running", samples.into_iter().sum()); }
    for v in violations.lock().unwrap().iter() {
        fail(&mut findings, &["C15"], "C15/more-accounted-than-hits".into(), format!("while running: {}", v), case.clone());
    }
    match sut.quiesce() {
        Err(Waited::Deadlock(d)) => fail(&mut findings, &["C15", "C18"], "C18/deadlock/stall-quiesce".into(), d, case.clone()),
        Err(other) => findings.push(Finding { props: vec!["C15"], signature: "inconclusive/stall-quiesce".into(), detail: waited_name(&other), witness: J::Null, inconclusive: true }),
        Ok(()) => {
            let (hits, misses) = (stat(StatsType::CacheHits), stat(StatsType::CacheMisses));
            let (added, dropped) = (stat(StatsType::AccessAdded), stat(StatsType::AccessDropped));
            let buffered = sut.cache.verif_buffered_hits() as u64;
            counts.add("hits", hits); counts.add("access_added", added); counts.add("access_dropped", dropped); counts.add("buffered_at_quiescence", buffered);
            counts.add("batches_applied", 0);
            if hits != hits_seen || hits + misses != lookups {
                fail(&mut findings, &["C16", "C15"], "C16/hits-differ-from-successful-reads".into(), format!("CacheHits {} / misses {} but {} of {} reads returned a value", hits, misses, hits_seen, lookups), case.clone());
            }
            if hits != added + dropped + buffered {
                fail(&mut findings, &["C15"], format!("C15/hits-not-accounted/variant={}", variant), format!("hits {} != added {} + dropped {} + buffered {}", hits, added, dropped, buffered), case.clone());
            }
            if sut.background_exits().is_empty() && sut.applied() != added {
                fail(&mut findings, &["C15"], format!("C15/applied-differs-from-added/variant={}", variant), format!("the sketch received {} access records but AccessAdded is {}", sut.applied(), added), case.clone());
            }
            if sut.background_exits().is_empty() {
                let counters = sut.cfg.counters.max(1);
                let position = sut.cache.verif_sketch_total_increments();
                if position != sut.applied() % counters {
                    fail(&mut findings, &["C15", "C14"], "C15/delivered-records-missing-from-the-sketch-window".into(),
                         format!("{} access records were handed to the sketch ({} counters per window) but it stands at position {} of its window instead of {}", sut.applied(), counters, position, sut.applied() % counters), case.clone());
                }
                if sut.applied() > counters { counts.inc("sketch_windows_restarted_with_records_accounted"); }
            }
            counts.inc("quiescent_identity_checks");
        }
    }
    let signature = fnv_step(fnv_step(fnv_step(0x57, pool as u64 * 1000 + buf as u64), readers as u64 * 4 + variant), counts.get("access_dropped").min(1) << 4 | (sut.cfg.hash_mode == HashMode::Constant) as u64);
    let nontrivial = counts.get("quiescent_identity_checks") > 0 && counts.get("hits") > 0;
    let sample = case.clone().with("hits", J::Int(counts.get("hits") as i128)).with("added", J::Int(counts.get("access_added") as i128)).with("dropped", J::Int(counts.get("access_dropped") as i128));
    if let Err(waited) = sut.finish_or_leak() { if findings.is_empty() { findings.push(Finding { props: vec!["C15"], signature: "inconclusive/finish".into(), detail: waited_name(&waited), witness: J::Null, inconclusive: true }); } }
    counts.inc("cases");
    CaseOut { findings, counts, signature, nontrivial, sample }
}

// ------------------------------------------------------------------------------------------------ C18: stress at maximal lock sharing

static REENTRANT_CALLS: AtomicU64 = AtomicU64::new(0);

pub fn run_stress(focus: &'static str, seed: u64, index: u64, args: &Args) -> CaseOut {
    let mut rng = rt::rng_for(seed, index, 0x18);
    let threads = args.u64("threads", *rng.pick(&[8u64, 12, 16])) as usize;
    let ops = args.u64("ops", 3000);
    let keys = rng.range(1, 4);
    let with_shutdown = rng.chance(1, 3);
    let perturb = *rng.pick(&[(50u64, 20u64, 3u64), (0, 0, 0), (200, 50, 0), (20, 100, 10)]);
    let sutcfg = SutCfg { counters: *rng.pick(&[2u64, 10]), capacity: 4, max_weight: *rng.pick(&[60i64, 120, 300]), shards: 2, cmd_buf: 1, pool: 1, buf: 1, tick: Duration::from_millis(1),
        weight_mode: WeightMode::Custom, hash_mode: if rng.chance(1, 3) { HashMode::Constant } else { HashMode::Default }, start_ns: rt::START_NS };
    let case = J::obj().with("engine", J::s("conc")).with("scenario", J::s("stress")).with("focus", J::s(focus)).with("seed", J::Int(seed as i128))
        .with("index", J::Int(index as i128)).with("threads", J::u(threads)).with("ops_per_thread", J::Int(ops as i128)).with("keys", J::Int(keys as i128))
        .with("shutdown_mid_run", J::Bool(with_shutdown)).with("perturbation", J::s(format!("{:?}", perturb))).with("config", sutcfg.to_json());
    let mut counts = Counts::default();
    let mut findings = Vec::new();
    let r = recorder();
    rt::clear_abort();
    r.keep.store(false, Ordering::SeqCst);
    r.track_acked.store(true, Ordering::SeqCst);
    r.check_weight_bounds.store(false, Ordering::SeqCst);
    let _ = r.take_events();
    r.clear_acked();
    sched().release_all();
    sched().set_random(rng.next(), perturb.0, perturb.1, perturb.2);
    sched().quiet_mask.store(0, Ordering::SeqCst);
    // two cases in three: one lock-holding site is stretched a few dozen times (1-3 ms each), so that the other threads pile up behind
    // the lock it holds while they hold theirs — what a cycle among three parties needs
    if index % 3 != 0 {
        let site = *rng.pick(&[Site::WeightDeleteHoldingTotal, Site::WeightUpdateHoldingEntry, Site::SweepBeforeEvict, Site::WeightDeleteAfterRemove, Site::AdmissionAfterEvict, Site::WorkerDeleteAfterStore]);
        sched().force_delay(site, rng.range(1000, 3000), rng.range(20, 60));
    }
    sched().start_trace();
    let panic_mark = rt::panic_count();
    let sut = Sut::new(sutcfg);
    let marks = sut.marks;
    let stop = Arc::new(AtomicBool::new(false));
    let advancer = { let (clock, stop) = (sut.clock.clone(), stop.clone()); thread::spawn(move || { rt::register_helper_thread(); while !stop.load(Ordering::Relaxed) { clock.advance(NS / 3); thread::sleep(Duration::from_micros(200)); } }) };
    let finished = Arc::new(AtomicU64::new(0));
    let longest = Arc::new(AtomicU64::new(0));
    let mut handles = Vec::new();
    for t in 0..threads {
        let cache = sut.cache.clone();
        let mut rng = rt::rng_for(seed, index, 500 + t as u64);
        let (finished, longest) = (finished.clone(), longest.clone());
        let shut = with_shutdown && t == 0;
        handles.push(thread::spawn(move || {
            let mut client = Client::new(t as u64 + 1);
            // every third acknowledgement is first polled by another task (a waker that is never used again) before its owner awaits it
            client.pre_poll_every = 3;
            let mut abnormal: Vec<Waited> = Vec::new();
            for n in 0..ops {
                if rt::aborted() { break; }
                let key = rng.range(1, keys);
                let t0 = Instant::now();
                if shut && n == ops / 2 { cache.shutdown(); }
                match rng.below(11) {
                    0..=3 => { let _ = read(&cache, rng.below(7) as usize, key); }
                    4 => { let keys: Vec<u64> = (1..=keys).collect(); let _ = read_multi(&cache, rng.below(3) as usize, &keys); }
                    10 => {
                        // calling back into the cache from the mapping function of map_get, and between two items of a multi-key
                        // iterator: no reference guard is held by the caller there, so every such call must return
                        let other = if rng.chance(1, 2) { key } else { rng.range(1, keys) };
                        let value = client.token(other);
                        let back = match rng.below(4) {
                            0 => Some(WriteOp::Upsert { key: other, value: Some(value), weight: Some(rng.range(25, 50) as i64), ttl: None, remove_ttl: false }),
                            1 => Some(WriteOp::Delete { key: other }),
                            2 => Some(WriteOp::PutW { key: other, value, weight: rng.range(25, 60) as i64 }),
                            _ => None,
                        };
                        let how = rng.below(3);
                        if how == 0 {
                            let _ = cache.map_get(&key, |stored| {
                                match &back { Some(op) => { let _ = issue(&cache, op); } None => { let _ = cache.get(&other); let _ = cache.total_weight_used(); } }
                                stored
                            });
                        } else if how == 1 {
                            // the mapping function of the mapping iterator
                            let all: Vec<u64> = (1..=keys).collect();
                            let refs: Vec<&u64> = all.iter().collect();
                            let _ = cache.multi_get_map_iterator(refs, |stored| {
                                match &back { Some(op) => { let _ = issue(&cache, op); } None => { let _ = cache.get(&other); } }
                                stored
                            }).count();
                        } else {
                            let all: Vec<u64> = (1..=keys).collect();
                            let refs: Vec<&u64> = all.iter().collect();
                            let mut iterator = cache.multi_get_iterator(refs);
                            let _ = iterator.next();
                            if let Some(op) = &back { let _ = issue(&cache, op); }
                            for _ in iterator {}
                        }
                        REENTRANT_CALLS.fetch_add(1, Ordering::Relaxed);
                    }
                    _ => {
                        let value = client.token(key);
                        let ttl = Duration::from_nanos(rng.range(0, 2 * NS));
                        let op = match rng.below(8) {
                            0 => WriteOp::Put { key, value }, 1 => WriteOp::PutTtl { key, value, ttl },
                            2 => WriteOp::PutWTtl { key, value, weight: rng.range(25, 60) as i64, ttl },
                            3 => WriteOp::Upsert { key, value: Some(value), weight: None, ttl: Some(ttl), remove_ttl: false },
                            4 => WriteOp::Upsert { key, value: None, weight: Some(rng.range(25, 50) as i64), ttl: None, remove_ttl: false },
                            5 => WriteOp::Upsert { key, value: Some(value), weight: Some(rng.range(30, 50) as i64), ttl: None, remove_ttl: true },
                            _ => WriteOp::Delete { key },
                        };
                        // upserts without a value on an absent key violate a documented precondition: give them a value
                        let op = match op { WriteOp::Upsert { key, value: None, weight, ttl, remove_ttl } => WriteOp::Upsert { key, value: Some(value), weight, ttl, remove_ttl }, other => other };
                        client.write(&cache, op);
                        if rng.chance(1, 3) { client.settle_all(&marks); }
                    }
                }
                longest.fetch_max(t0.elapsed().as_micros() as u64, Ordering::Relaxed);
                // keep the log small: only abnormal acknowledgement outcomes matter here
                if client.log.len() > 256 {
                    client.settle_all(&marks);
                    for rec in client.log.drain(..) { if let Outcome::Write { status: Some(w), .. } = rec.outcome { if !matches!(w, Waited::Ready(_)) { abnormal.push(w); } } }
                }
            }
            client.settle_all(&marks);
            for rec in client.log.drain(..) { if let Outcome::Write { status: Some(w), .. } = rec.outcome { if !matches!(w, Waited::Ready(_)) { abnormal.push(w); } } }
            finished.fetch_add(1, Ordering::SeqCst);
            abnormal
        }));
    }
    let all_done = rt::wait_until("stress clients to finish", || finished.load(Ordering::SeqCst) >= threads as u64);
    if let Err(waited) = &all_done {
        if let Waited::Deadlock(d) = waited {
            fail(&mut findings, &["C18", "C17"], "C18/deadlock/stress".into(), format!("no thread is runnable and nothing progresses with {} of {} clients unfinished: {}", threads as u64 - finished.load(Ordering::SeqCst), threads, d), case.clone());
        } else { findings.push(Finding { props: vec!["C18"], signature: "inconclusive/stress".into(), detail: waited_name(waited), witness: J::Null, inconclusive: true }); }
    }
    stop.store(true, Ordering::SeqCst);
    if all_done.is_ok() {
        for handle in handles {
            if let Ok(abnormal) = handle.join() {
                for w in abnormal {
                    match w {
                        Waited::Deadlock(d) => fail(&mut findings, &["C18"], "C18/deadlock/await".into(), d, case.clone()),
                        Waited::ReadyPending => fail(&mut findings, &["C12"], "C12/ready-pending".into(), "an acknowledgement resolved to Pending".into(), case.clone()),
                        Waited::LostWakeup => fail(&mut findings, &["C12", "C18"], "C12/lost-wakeup".into(), "an acknowledged command never woke its task".into(), case.clone()),
                        Waited::WorkerDead => { let site = rt::panics_since(panic_mark).last().map(rt::panic_site).unwrap_or_else(|| "no-panic".into()); fail(&mut findings, &["C17", "C18"], format!("C17/worker-dead/{}/cmd={}/stress", site, rt::last_command_kind()), "the command worker died".into(), case.clone()) }
                        Waited::Inconclusive(reason) => findings.push(Finding { props: vec!["C18"], signature: "inconclusive/await".into(), detail: reason, witness: J::Null, inconclusive: true }),
                        Waited::Ready(_) => {}
                    }
                }
            }
        }
        let _ = advancer.join();
    }
    let trace = sched().stop_trace();
    sched().quiet();
    let total_ops = threads as u64 * ops;
    counts.add("operations_completed", total_ops);
    counts.add("calls_back_into_the_cache_from_map_get_or_between_iterator_items", REENTRANT_CALLS.swap(0, Ordering::Relaxed));
    counts.add("longest_single_call_us", longest.load(Ordering::Relaxed));
    counts.add("schedule_perturbations_injected", sched().injected.swap(0, Ordering::Relaxed));
    let pairs = lock_site_pairs(&trace);
    counts.add("distinct_cross_thread_site_adjacencies", pairs as u64);
    if !with_shutdown && all_done.is_ok() && !sut.background_exits().is_empty() {
        let site = rt::panics_since(panic_mark).last().map(rt::panic_site).unwrap_or_else(|| "no-panic".into());
        fail(&mut findings, &["C17", "C18"], format!("C17/background-thread-exited/{:?}/{}/stress", sut.background_exits(), site), "a background thread exited during the stress run".into(), case.clone());
    }
    let signature = rt::trace_signature(&trace);
    let sample = case.clone().with("operations_completed", J::Int(total_ops as i128));
    r.check_weight_bounds.store(true, Ordering::SeqCst);
    if all_done.is_ok() {
        if let Err(waited) = sut.finish_or_leak() {
            match waited {
                Waited::Deadlock(d) => fail(&mut findings, &["C13", "C18"], "C13/shutdown-stuck".into(), d, case.clone()),
                other => findings.push(Finding { props: vec!["C18"], signature: "inconclusive/finish".into(), detail: waited_name(&other), witness: J::Null, inconclusive: true }),
            }
        }
    }
    counts.inc("cases");
    CaseOut { findings, counts, signature, nontrivial: all_done.is_ok() && total_ops > 100, sample }
}

// ------------------------------------------------------------------------------------------------ C14 end-to-end: hits -> pool -> consumer -> sketch

/// Readers hit a few resident keys a known number of times (paced so that nothing is dropped) while a writer storms the
/// full cache with puts that are all rejected after consulting the sketch (read-lock traffic against the consumer's write
/// lock). With no ageing inside the case, every key's estimate must be at least min(its recorded hits - what is still
/// buffered, 15).
pub fn run_estimate(focus: &'static str, seed: u64, index: u64) -> CaseOut {
    let mut rng = rt::rng_for(seed, index, 0xE57);
    let buf = *rng.pick(&[1usize, 2, 4]);
    let readers = *rng.pick(&[1usize, 2, 4]);
    let reads_per_reader = rng.range(6, 40);
    let storm = index % 4 != 3;
    let sutcfg = SutCfg { counters: 1_000_000, capacity: 16, max_weight: 40, shards: 2, cmd_buf: 8, pool: 1, buf, tick: Duration::from_millis(1),
        weight_mode: WeightMode::Custom, hash_mode: HashMode::Default, start_ns: rt::START_NS };
    let case = J::obj().with("engine", J::s("conc")).with("scenario", J::s("estimate")).with("focus", J::s(focus)).with("seed", J::Int(seed as i128)).with("index", J::Int(index as i128))
        .with("readers", J::u(readers)).with("reads_per_reader", J::Int(reads_per_reader as i128)).with("buffer", J::u(buf)).with("writer_storm", J::Bool(storm));
    let mut counts = Counts::default();
    let mut findings = Vec::new();
    rt::clear_abort();
    let r = recorder();
    r.keep.store(false, Ordering::SeqCst);
    let _ = r.take_events();
    sched().release_all();
    sched().quiet();
    let sut = Sut::new(sutcfg);
    let marks = sut.marks;
    let mut setup = Client::new(1);
    for key in 1..=4u64 { let value = setup.token(key); setup.write(&sut.cache, WriteOp::PutW { key, value, weight: 10 }); }
    setup.settle_all(&marks);
    // warm-up: one recorded hit each, so that a never-read incoming key (estimate 0) can never evict a resident
    for key in 1..=4u64 { let _ = sut.cache.get(&key); }
    for _ in 0..buf { let _ = sut.cache.get(&1); }
    let _ = sut.quiesce();
    let stop = Arc::new(AtomicBool::new(false));
    let writer = if storm {
        let (cache, stop) = (sut.cache.clone(), stop.clone());
        Some(thread::spawn(move || {
            let mut n = 0u64;
            while !stop.load(Ordering::Relaxed) {
                n += 1;
                let key = 1000 + n % 50;
                // only every eighth put is awaited (the queue has eight slots): the worker is kept busy consulting the sketch back to back
                if let Ok(ack) = cache.put_with_weight(key, token(key, 9, n), 10) { if n % 8 == 0 { let _ = rt::busy_await(ack.handle(), Duration::from_secs(10)); } }
            }
            n
        }))
    } else { None };
    let mut handles = Vec::new();
    for t in 0..readers {
        let cache = sut.cache.clone();
        handles.push(thread::spawn(move || {
            let key = 1 + (t as u64 % 4);
            let mut hits = 0u64;
            for _ in 0..reads_per_reader {
                if cache.get(&key).is_some() { hits += 1; }
                // pace: never let the hand-over queue (capacity 10) fill up, so that no batch is dropped
                let mut spins = 0;
                while cache.verif_access_queue_len() >= 6 && spins < 100_000 { thread::yield_now(); spins += 1; }
            }
            (key, hits)
        }));
    }
    let mut hits_of: BTreeMap<u64, u64> = BTreeMap::new();
    for key in 1..=4u64 { hits_of.insert(key, 1); }
    *hits_of.get_mut(&1).unwrap() += buf as u64;
    for handle in handles { if let Ok((key, hits)) = handle.join() { *hits_of.entry(key).or_insert(0) += hits; } }
    stop.store(true, Ordering::SeqCst);
    let storm_puts = writer.map(|w| w.join().unwrap_or(0)).unwrap_or(0);
    counts.add("rejected_puts_consulting_the_sketch_during_the_reads", storm_puts);
    match sut.quiesce() {
        Err(waited) => match waited {
            // every thread idle while records counted as handed over (AccessAdded) have still not been applied to the sketch: they never will be
            Waited::Deadlock(d) if d.starts_with("access batches to be applied") => fail(&mut findings, &["C15", "C14"], "C15/handed-over-records-never-reach-the-sketch/estimate".into(),
                format!("AccessAdded {} but the sketch received {} records, with every thread idle (hits {}, dropped {}): {}", sut.stat(StatsType::AccessAdded), sut.applied(), sut.stat(StatsType::CacheHits), sut.stat(StatsType::AccessDropped), d), case.clone()),
            Waited::Deadlock(d) => fail(&mut findings, &["C18", "C14"], "C18/deadlock/estimate".into(), d, case.clone()),
            other => findings.push(Finding { props: vec!["C14"], signature: "inconclusive/estimate".into(), detail: waited_name(&other), witness: J::Null, inconclusive: true }),
        },
        Ok(()) => {
            // C15 with the command worker consulting the sketch (read lock in estimate()) while the consumer applies batches to it: every hit is
            // still buffered, handed over or counted as dropped - exactly once
            let (hits, added, dropped) = (sut.stat(StatsType::CacheHits), sut.stat(StatsType::AccessAdded), sut.stat(StatsType::AccessDropped));
            let buffered = sut.cache.verif_buffered_hits() as u64;
            counts.inc("quiescent_identity_checks_after_the_worker_consulted_the_sketch_during_reads");
            if hits != added + dropped + buffered {
                fail(&mut findings, &["C15"], "C15/hits-not-accounted/estimate".into(), format!("hits {} != added {} + dropped {} + buffered {} (readers while a writer's puts consult the sketch)", hits, added, dropped, buffered), case.clone());
            } else if sut.background_exits().is_empty() && sut.applied() != added {
                fail(&mut findings, &["C15"], "C15/applied-differs-from-added/estimate".into(), format!("the sketch received {} access records but AccessAdded is {}", sut.applied(), added), case.clone());
            }
            if dropped > 0 { counts.inc("cases_skipped_because_accesses_were_dropped"); }
            else {
                let resident: BTreeSet<u64> = sut.snapshot().stored.iter().map(|e| e.0).collect();
                // every resident had at least one recorded hit before the storm began and nothing ages, so its estimate was >= 1 throughout;
                // the storm keys were never read: unless one of them picked up an estimate through a hash collision, none may evict a resident
                let storm_estimate = (1000..1050u64).map(|k| sut.cache.verif_estimate(&k) as u64).max().unwrap_or(0);
                if storm && storm_estimate == 0 { counts.inc("storms_of_never_read_keys_against_residents_with_recorded_hits"); }
                for (key, hits) in &hits_of {
                    if !resident.contains(key) {
                        counts.inc("resident_keys_evicted");
                        if storm_estimate == 0 {
                            fail(&mut findings, &["C06", "C14"], "C06/resident-with-recorded-hits-evicted-by-a-never-read-key".into(),
                                 format!("key {} ({} recorded hits, estimate >= 1 throughout, no ageing) was evicted although every incoming key has estimate 0", key, hits), case.clone());
                        }
                        continue;
                    }
                    let estimate = sut.cache.verif_estimate(key) as u64;
                    let delivered = hits.saturating_sub(buf as u64);
                    counts.inc("end_to_end_estimates_checked");
                    if estimate < delivered.min(15) {
                        fail(&mut findings, &["C14", "C15"], "C14/estimate-under-counts/end-to-end".into(),
                             format!("key {} was hit {} times (at most {} still buffered, none dropped, no ageing: {} counters) but its estimated frequency is {}", key, hits, buf, 1_000_000, estimate), case.clone());
                    }
                    if estimate >= 15 { counts.inc("saturated_estimates_seen_end_to_end"); }
                }
            }
        }
    }
    let signature = fnv_step(fnv_step(fnv_step(0xE57, buf as u64 * 100 + readers as u64), reads_per_reader), storm as u64);
    let sample = case.clone().with("hits", J::Arr(hits_of.iter().map(|(k, h)| J::s(format!("key {}: {} hits", k, h))).collect()));
    if let Err(waited) = sut.finish_or_leak() { if findings.is_empty() { findings.push(Finding { props: vec!["C14"], signature: "inconclusive/finish".into(), detail: waited_name(&waited), witness: J::Null, inconclusive: true }); } }
    counts.inc("cases");
    let nontrivial = counts.get("end_to_end_estimates_checked") > 0;
    CaseOut { findings, counts, signature, nontrivial, sample }
}

// ------------------------------------------------------------------------------------------------ C04: a delete releases exactly the key's weight

/// Model-free conservation around deletes: one client, a handful of keys whose weights are raised and lowered through upserts (also far
/// beyond the limit of the cache, which updates are allowed to do), time-to-live added and removed; before every delete the total and the
/// weight charged for the key are read, after the accepted delete the total must have dropped by exactly that weight, the key must read
/// absent, must not be charged, and a second delete must be refused; in the end every key is deleted and the total must be zero, then every
/// key is put again.
pub fn run_release(focus: &'static str, seed: u64, index: u64) -> CaseOut {
    let mut rng = rt::rng_for(seed, index, 0x4E1);
    let keys = rng.range(2, 6);
    let max_weight = *rng.pick(&[300i64, 1000, 100_000]);
    let sutcfg = SutCfg { counters: 100, capacity: 16, max_weight, shards: *rng.pick(&[2usize, 4]), cmd_buf: 8, pool: 1, buf: 2, tick: Duration::from_millis(1),
        weight_mode: WeightMode::Custom, hash_mode: HashMode::Default, start_ns: rt::START_NS };
    let case = J::obj().with("engine", J::s("conc")).with("scenario", J::s("release")).with("focus", J::s(focus)).with("seed", J::Int(seed as i128)).with("index", J::Int(index as i128))
        .with("keys", J::Int(keys as i128)).with("max_weight", J::Int(max_weight as i128));
    let mut counts = Counts::default();
    let mut findings = Vec::new();
    rt::clear_abort();
    let r = recorder();
    r.keep.store(false, Ordering::SeqCst);
    let _ = r.take_events();
    let _ = r.take_weight_violations();
    sched().release_all();
    sched().quiet();
    let sut = Sut::new(sutcfg);
    let marks = sut.marks;
    let mut client = Client::new(1);
    let mut steps = J::arr();
    let mut sig = 0x4E1u64;
    let run = |client: &mut Client, op: WriteOp| -> Option<CommandStatus> {
        let at = client.write(&sut.cache, op);
        client.settle_all(&marks);
        match &client.log[at].outcome { Outcome::Write { status: Some(Waited::Ready(status)), .. } => Some(*status), _ => None }
    };
    let per_key = (max_weight / (keys as i64 + 1)).min(60).max(31);
    for key in 1..=keys { let value = client.token(key); let _ = run(&mut client, WriteOp::PutW { key, value, weight: per_key }); }
    let rounds = rng.range(6, 20);
    let mut stuck = false;
    // every third case first: two deletes of one held key back to back while the worker is held before it executes either. While it is
    // held no delete has been applied, so an acknowledgement that is already Accepted claims "gone" for a key that is still stored and
    // charged; afterwards exactly one of the two is accepted, the other is refused, and the total dropped by the key's weight.
    if index % 3 == 0 {
        let key = rng.range(1, keys);
        let _ = sut.quiesce();
        let snapshot = sut.snapshot();
        if let Some(id) = snapshot.stored.iter().find(|e| e.0 == key).map(|e| e.1) {
            let before = sut.cache.total_weight_used();
            let charged = sut.cache.verif_charged_weight(id).unwrap_or(0);
            sched().arm(Site::WorkerDequeued, 0);
            let mut dummy = Client::new(8);
            dummy.write(&sut.cache, WriteOp::Delete { key: 77 });
            if sched().wait_holding(Site::WorkerDequeued, Duration::from_secs(5)) {
                let first = issue(&sut.cache, &WriteOp::Delete { key });
                let second = issue(&sut.cache, &WriteOp::Delete { key });
                let mut early = None;
                if let Issued::Ack(ack, _) = &second {
                    let waker = rt::CountingWaker::new();
                    if let Poll::Ready(status) = rt::poll_once(ack.handle(), &waker) { early = Some(status); }
                }
                if let Some(CommandStatus::Rejected(RejectionReason::KeyDoesNotExist)) = early {
                    if sut.cache.verif_charged_weight(id).is_some() {
                        fail(&mut findings, &["C04", "C07"], "C04/delete-acknowledged-as-absent-while-the-key-is-still-held".into(),
                             format!("the second of two back-to-back deletes of key {} was acknowledged 'key does not exist' while the worker had executed neither: id {} is still stored and charged {}, and a put of it would be refused as existing", key, id, charged), case.clone());
                    }
                }
                if let Some(CommandStatus::Accepted) = early {
                    if sut.cache.verif_charged_weight(id).is_some() {
                        fail(&mut findings, &["C04"], "C04/delete-acknowledged-as-accepted-while-the-key-is-still-held".into(),
                             format!("the second of two back-to-back deletes of key {} was acknowledged Accepted while the worker had executed neither: id {} is still stored and charged {}", key, id, charged), case.clone());
                    }
                }
                sched().release(Site::WorkerDequeued);
                dummy.settle_all(&marks);
                let mut statuses = Vec::new();
                for issued in [first, second] {
                    if let Issued::Ack(ack, uid) = issued { match rt::await_ack(ack.handle(), uid, &marks) { Waited::Ready(s) => statuses.push(s), _ => { stuck = true; } } }
                }
                if !stuck && findings.is_empty() {
                    counts.inc("back_to_back_deletes_behind_a_held_worker");
                    let accepted = statuses.iter().filter(|s| **s == CommandStatus::Accepted).count();
                    let refused = statuses.iter().filter(|s| **s == CommandStatus::Rejected(RejectionReason::KeyDoesNotExist)).count();
                    let after = sut.cache.total_weight_used();
                    if accepted != 1 || refused != 1 || after != before - charged {
                        fail(&mut findings, &["C04", "C11"], "C04/two-deletes-of-one-key-not-one-accepted-one-refused".into(),
                             format!("two back-to-back deletes of held key {} (charged {}) resolved to {:?}; total {} -> {}", key, charged, statuses.iter().map(status_name).collect::<Vec<_>>(), before, after), case.clone());
                    }
                }
            } else { sched().release(Site::WorkerDequeued); dummy.settle_all(&marks); counts.inc("window_not_entered"); }
        }
    }
    'rounds: for round in 0..rounds + keys {
        if stuck || !findings.is_empty() { break; }
        let final_phase = round >= rounds;
        let key = if final_phase { round - rounds + 1 } else { rng.range(1, keys) };
        if !final_phase {
            // shape the key first: raise / lower its weight (now and then far beyond what the cache may hold), add or remove a time-to-live
            for _ in 0..rng.range(0, 3) {
                let held = sut.cache.get(&key).is_some();
                if !held { let value = client.token(key); let _ = run(&mut client, WriteOp::PutW { key, value, weight: per_key }); continue; }
                let op = match rng.below(5) {
                    0 => WriteOp::Upsert { key, value: None, weight: Some(max_weight + rng.range(1, 500) as i64), ttl: None, remove_ttl: false },
                    1 => WriteOp::Upsert { key, value: None, weight: Some(rng.range(31, 90) as i64), ttl: None, remove_ttl: false },
                    2 => WriteOp::Upsert { key, value: Some(client.token(key)), weight: Some(rng.range(31, 90) as i64), ttl: Some(Duration::from_secs(3600)), remove_ttl: false },
                    3 => WriteOp::Upsert { key, value: None, weight: None, ttl: Some(Duration::from_secs(7200)), remove_ttl: false },
                    _ => WriteOp::Upsert { key, value: Some(client.token(key)), weight: None, ttl: None, remove_ttl: false },
                };
                sig = fnv_step(sig, rng.below(1) + match &op { WriteOp::Upsert { weight: Some(w), .. } if *w > max_weight => 7, WriteOp::Upsert { ttl: Some(_), .. } => 5, _ => 3 });
                steps.push(op.to_json());
                if matches!(&op, WriteOp::Upsert { weight: Some(w), .. } if *w > max_weight) { counts.inc("weights_raised_beyond_the_limit_of_the_cache"); }
                if run(&mut client, op).is_none() { stuck = true; break 'rounds; }
            }
        }
        if sut.quiesce().is_err() { stuck = true; break; }
        let _ = r.take_weight_violations();
        let snapshot = sut.snapshot();
        let stored = snapshot.stored.iter().find(|e| e.0 == key).map(|e| (e.1, e.3));
        let before = sut.cache.total_weight_used();
        let charged = stored.and_then(|(id, _)| sut.cache.verif_charged_weight(id));
        steps.push(WriteOp::Delete { key }.to_json());
        let status = match run(&mut client, WriteOp::Delete { key }) { Some(s) => s, None => { stuck = true; break; } };
        let after = sut.cache.total_weight_used();
        let witness = || case.clone().with("steps", steps.clone());
        match (stored, status) {
            (Some((id, false)), CommandStatus::Accepted) => {
                counts.inc("deletes_of_held_keys_judged");
                let charged = charged.unwrap_or(0);
                if after != before - charged {
                    fail(&mut findings, &["C04", "C05"], "C04/delete-did-not-release-exactly-the-weight-of-the-key".into(),
                         format!("key {} (id {}) was charged {}: the total was {} before its delete and is {} after it instead of {}", key, id, charged, before, after, before - charged), witness());
                }
                if sut.cache.verif_charged_weight(id).is_some() { fail(&mut findings, &["C04", "C05"], "C04/weight-still-charged-after-delete".into(), format!("id {} of key {} is still charged after its accepted delete", id, key), witness()); }
                if sut.cache.get(&key).is_some() { fail(&mut findings, &["C04", "C02"], "C04/deleted-key-still-readable".into(), format!("key {} is readable after its accepted delete", key), witness()); }
                if charged > max_weight { counts.inc("deletes_of_keys_heavier_than_the_cache"); }
            }
            (None, CommandStatus::Rejected(RejectionReason::KeyDoesNotExist)) => {
                counts.inc("deletes_of_absent_keys_judged");
                if after != before { fail(&mut findings, &["C04"], "C04/refused-delete-changed-the-total".into(), format!("delete of absent key {} moved the total from {} to {}", key, before, after), witness()); }
            }
            (Some((_, false)), other) => fail(&mut findings, &["C04"], "C04/delete-of-held-key-not-accepted".into(), format!("delete of held key {} resolved to {}", key, status_name(&other)), witness()),
            (None, other) => fail(&mut findings, &["C04"], "C04/delete-of-absent-key-not-refused".into(), format!("delete of absent key {} resolved to {}", key, status_name(&other)), witness()),
            _ => {}
        }
        if !findings.is_empty() { break; }
        // a second delete is refused and changes nothing
        if rng.chance(1, 3) {
            let status = run(&mut client, WriteOp::Delete { key });
            if status != Some(CommandStatus::Rejected(RejectionReason::KeyDoesNotExist)) || sut.cache.total_weight_used() != after {
                fail(&mut findings, &["C04"], "C04/second-delete-not-refused-or-changed-something".into(), format!("second delete of key {}: {:?}, total {} -> {}", key, status.map(|s| status_name(&s)), after, sut.cache.total_weight_used()), witness());
                break;
            }
            counts.inc("second_deletes_refused");
        }
    }
    if !stuck && findings.is_empty() {
        let _ = sut.quiesce();
        let left = sut.cache.total_weight_used();
        if left != 0 {
            fail(&mut findings, &["C04", "C05"], "C04/weight-left-after-deleting-every-key".into(), format!("every key was deleted and acknowledged, yet the total weight used is {}", left), case.clone().with("steps", steps.clone()));
        }
        // every key can be put again
        for key in 1..=keys {
            let value = client.token(key);
            match run(&mut client, WriteOp::PutW { key, value, weight: per_key }) {
                Some(CommandStatus::Accepted) => { counts.inc("reputs_after_delete_accepted"); }
                Some(other) => { fail(&mut findings, &["C04", "C07"], "C04/deleted-key-cannot-be-put-again".into(), format!("put of deleted key {} resolved to {}", key, status_name(&other)), case.clone().with("steps", steps.clone())); break; }
                None => { stuck = true; break; }
            }
        }
        counts.inc("final_zero_total_checks");
    }
    if stuck { findings.push(Finding { props: vec!["C04"], signature: "inconclusive/release".into(), detail: "an acknowledgement did not resolve normally".into(), witness: J::Null, inconclusive: true }); }
    let _ = r.take_weight_violations();
    let sample = case.clone().with("steps", steps);
    if let Err(waited) = sut.finish_or_leak() { if findings.is_empty() { findings.push(Finding { props: vec!["C04"], signature: "inconclusive/finish".into(), detail: waited_name(&waited), witness: J::Null, inconclusive: true }); } }
    counts.inc("cases");
    let nontrivial = counts.get("deletes_of_held_keys_judged") > 0;
    CaseOut { findings, counts, signature: fnv_step(sig, keys), nontrivial, sample }
}

// ------------------------------------------------------------------------------------------------ fan-out: many threads, all keys distinct

/// Many threads put disjoint sets of keys at the same moment (half of them with a time-to-live), so that every step of a put that is shared
/// between callers (id generation, the command queue, admission, the TTL index) is entered concurrently for DIFFERENT keys. Then, at
/// quiescence: every accepted key is held under an id of its own, charged with its weight, the total is the sum; after the clock has passed
/// the time-to-live and the sweeps have gone round, the expiring keys are gone and released; every key that reads as absent can be put again
/// (never `KeyAlreadyExists`); and after deleting everything the total is zero.
pub fn run_fanout(focus: &'static str, seed: u64, index: u64) -> CaseOut {
    let mut rng = rt::rng_for(seed, index, 0xFA0);
    // mode 0: half of the keys expire 1-3 s later; mode 1 ("burst"): well over a thousand keys, all with the same time-to-live, come due in ONE
    // sweep of ONE shard; mode 2: the same burst, and every key is deleted by the client while that sweep is evicting them
    let mode = index % 3;
    let threads = if mode == 0 { *rng.pick(&[4usize, 8, 16]) } else { *rng.pick(&[8usize, 16]) };
    let per_thread = if mode == 0 { rng.range(40, 160) } else { rng.range(150, 220) };
    let shards = *rng.pick(&[2usize, 4]);
    let sutcfg = SutCfg { counters: 10_000, capacity: 4096, max_weight: 1_000_000_000, shards, cmd_buf: *rng.pick(&[8usize, 64, 32_768]), pool: 2, buf: 4, tick: Duration::from_millis(1),
        weight_mode: WeightMode::Custom, hash_mode: HashMode::Default, start_ns: rt::START_NS };
    let case = J::obj().with("engine", J::s("conc")).with("scenario", J::s("fanout")).with("focus", J::s(focus)).with("seed", J::Int(seed as i128)).with("index", J::Int(index as i128))
        .with("threads", J::u(threads)).with("keys_per_thread", J::Int(per_thread as i128)).with("ttl_shards", J::u(shards)).with("mode", J::s(["mixed time-to-live", "burst expiry", "burst expiry with deletes during the sweep"][mode as usize]));
    let mut counts = Counts::default();
    let mut findings = Vec::new();
    rt::clear_abort();
    let r = recorder();
    r.keep.store(false, Ordering::SeqCst);
    let _ = r.take_events();
    let _ = r.take_weight_violations();
    sched().release_all();
    sched().quiet();
    let sut = Sut::new(sutcfg);
    let marks = sut.marks;
    let go = Arc::new(AtomicBool::new(false));
    let mut crew: rt::Crew<Vec<(u64, i64, bool, Option<CommandStatus>)>> = rt::Crew::new();
    for t in 0..threads {
        let cache = sut.cache.clone();
        let go = go.clone();
        crew.spawn(move || {
            let mut client = Client::new(t as u64 + 1);
            let mut mine = Vec::new();
            while !go.load(Ordering::SeqCst) { std::hint::spin_loop(); }
            for i in 0..per_thread {
                let key = (t as u64 + 1) * 100_000 + i;
                let weight = 30 + (i % 7) as i64;
                let with_ttl = mode != 0 || i % 2 == 0;
                let value = client.token(key);
                let op = if with_ttl { WriteOp::PutWTtl { key, value, weight, ttl: Duration::from_secs(if mode == 0 { 1 + i % 3 } else { 1 }) } } else { WriteOp::PutW { key, value, weight } };
                let at = client.write(&cache, op);
                mine.push((key, weight, with_ttl, at));
            }
            client.settle_all(&marks);
            mine.into_iter().map(|(key, weight, with_ttl, at)| {
                let status = match &client.log[at].outcome { Outcome::Write { status: Some(Waited::Ready(s)), .. } => Some(*s), _ => None };
                (key, weight, with_ttl, status)
            }).collect()
        });
    }
    go.store(true, Ordering::SeqCst);
    let mut puts: Vec<(u64, i64, bool, Option<CommandStatus>)> = Vec::new();
    let mut stuck = false;
    match crew.join("the putting threads of a fan-out to finish") {
        Ok(results) => for list in results { puts.extend(list); },
        Err(Waited::Deadlock(d)) => { stuck = true; fail(&mut findings, &["C18", "C11"], "C18/deadlock/fanout".into(), d, case.clone()); }
        Err(other) => { stuck = true; findings.push(Finding { props: vec!["C05"], signature: "inconclusive/fanout".into(), detail: waited_name(&other), witness: J::Null, inconclusive: true }); }
    }
    let mut sig = 0xFA0u64;
    if !stuck && sut.quiesce().is_ok() {
        let _ = r.take_weight_violations();
        let snapshot = sut.snapshot();
        let accepted: Vec<&(u64, i64, bool, Option<CommandStatus>)> = puts.iter().filter(|p| p.3 == Some(CommandStatus::Accepted)).collect();
        counts.add("distinct_keys_put_at_the_same_moment", puts.len() as u64);
        if accepted.len() != puts.len() {
            let other = puts.iter().find(|p| p.3 != Some(CommandStatus::Accepted)).unwrap();
            fail(&mut findings, &["C06", "C07", "C12"], "C06/put-of-a-new-key-into-an-almost-empty-cache-not-accepted".into(), format!("put of new key {} resolved to {:?}", other.0, other.3.map(|s| status_name(&s))), case.clone());
        }
        let mut by_id: HashMap<u64, u64> = HashMap::new();
        for entry in &snapshot.stored {
            if let Some(first) = by_id.insert(entry.1, entry.0) {
                fail(&mut findings, &["C05", "C07", "C10"], "C05/two-held-keys-share-one-id".into(), format!("keys {} and {} are both stored under id {}: weight, expiry registration and eviction of the two are tied together", first, entry.0, entry.1), case.clone());
                break;
            }
        }
        let stored: HashMap<u64, u64> = snapshot.stored.iter().map(|e| (e.0, e.1)).collect();
        let charged: HashMap<u64, i64> = snapshot.charged.iter().map(|c| (c.0, c.3)).collect();
        for p in &accepted {
            match stored.get(&p.0) {
                None => { fail(&mut findings, &["C03", "C05"], "C03/accepted-key-not-stored/fanout".into(), format!("key {} was accepted (no pressure, clock not moved) but is not stored", p.0), case.clone()); break; }
                Some(id) => if charged.get(id) != Some(&p.1) {
                    fail(&mut findings, &["C05"], "C05/held-key-not-charged/fanout".into(), format!("key {} (id {}) was put with weight {} but is charged {:?}", p.0, id, p.1, charged.get(id)), case.clone()); break;
                }
            }
        }
        let sum: i64 = accepted.iter().map(|p| p.1).sum();
        if findings.is_empty() && snapshot.weight_used != sum {
            fail(&mut findings, &["C05"], "C05/total-differs-from-sum-of-charged/fanout".into(), format!("total {} but the {} accepted keys weigh {}", snapshot.weight_used, accepted.len(), sum), case.clone());
        }
        let (added, held) = (sut.stat(StatsType::KeysAdded), snapshot.stored.len() as u64);
        if findings.is_empty() && added != held { fail(&mut findings, &["C16"], "C16/keys-added-differs-from-held/fanout".into(), format!("KeysAdded {} but {} keys are held (nothing deleted yet)", added, held), case.clone()); }
        counts.inc("fanout_accounting_checks");
        sig = fnv_step(sig, (threads as u64) << 8 | shards as u64);
        if mode != 0 { counts.add("keys_coming_due_in_one_sweep_of_one_shard", accepted.len() as u64); }
        if mode == 2 && findings.is_empty() {
            // one jump past every deadline, and at once the client deletes every key: the worker's deletes and the sweeper's evictions of the
            // same ids run side by side
            sut.advance(3 * NS);
            let mut deleter = Client::new(97);
            for p in accepted.iter() { deleter.write(&sut.cache, WriteOp::Delete { key: p.0 }); }
            deleter.settle_all(&marks);
            counts.add("deletes_issued_while_the_sweeper_was_evicting_the_same_keys", accepted.len() as u64);
        }
        // let every time-to-live pass and the sweeps go round
        if findings.is_empty() {
            for _ in 0..(shards as u64 + 5) {
                sut.advance(NS);
                if sut.settle().is_err() { stuck = true; break; }
            }
        }
        if findings.is_empty() && !stuck {
            let after = sut.snapshot();
            let left: Vec<u64> = accepted.iter().filter(|p| p.2).map(|p| p.0).filter(|k| after.stored.iter().any(|e| e.0 == *k)).collect();
            if !left.is_empty() {
                fail(&mut findings, &["C10", "C05"], "C10/expired-keys-still-held-after-full-sweep-cycles/fanout".into(), format!("{} keys past their time-to-live are still stored after the sweeps went round all {} shards (e.g. key {})", left.len(), shards, left[0]), case.clone());
            }
            let sum_left: i64 = accepted.iter().filter(|p| !p.2).map(|p| p.1).sum();
            if findings.is_empty() && after.weight_used != sum_left {
                fail(&mut findings, &["C10", "C05"], "C10/weight-of-swept-keys-not-released/fanout".into(), format!("total {} but the keys without a time-to-live weigh {}", after.weight_used, sum_left), case.clone());
            }
            counts.inc("fanout_sweep_checks");
            // every key that reads as absent can be put again; every key still readable is refused
            let mut client = Client::new(99);
            let mut probes: Vec<(u64, bool, usize)> = Vec::new();
            for p in accepted.iter().take(400) {
                let readable = sut.cache.get(&p.0).is_some();
                let value = client.token(p.0);
                let at = client.write(&sut.cache, WriteOp::PutW { key: p.0, value, weight: 30 });
                probes.push((p.0, readable, at));
            }
            client.settle_all(&marks);
            for (key, readable, at) in probes {
                let status = match &client.log[at].outcome { Outcome::Write { status: Some(Waited::Ready(s)), .. } => Some(*s), _ => None };
                counts.inc("puts_after_the_fanout_judged");
                match (readable, status) {
                    (false, Some(CommandStatus::Rejected(RejectionReason::KeyAlreadyExists))) => {
                        fail(&mut findings, &["C07", "C10"], "C07/key-already-exists-for-unreadable-key/swept/fanout".into(), format!("key {} reads as absent (its time-to-live has passed and the sweeps went round) yet a put is refused with KeyAlreadyExists", key), case.clone());
                        break;
                    }
                    (true, Some(s)) if s != CommandStatus::Rejected(RejectionReason::KeyAlreadyExists) => {
                        fail(&mut findings, &["C07"], "C07/put-on-readable-key-not-rejected/fanout".into(), format!("put of readable key {} resolved to {}", key, status_name(&s)), case.clone());
                        break;
                    }
                    _ => {}
                }
            }
        }
        // delete everything: nothing may stay charged
        if findings.is_empty() && !stuck {
            let mut client = Client::new(98);
            let all: Vec<u64> = sut.snapshot().stored.iter().map(|e| e.0).collect();
            for key in all { client.write(&sut.cache, WriteOp::Delete { key }); }
            client.settle_all(&marks);
            let _ = sut.quiesce();
            let end = sut.snapshot();
            let (added, deleted) = (sut.stat(StatsType::KeysAdded), sut.stat(StatsType::KeysDeleted));
            if added != deleted && end.stored.is_empty() {
                fail(&mut findings, &["C16"], "C16/keys-added-minus-deleted-differs-from-held/fanout".into(), format!("nothing is held any more, but KeysAdded is {} and KeysDeleted is {}", added, deleted), case.clone());
            }
            if end.weight_used != 0 || !end.charged.is_empty() || !end.stored.is_empty() {
                fail(&mut findings, &["C05", "C04"], "C05/weight-left-after-deleting-every-key/fanout".into(), format!("after deleting every held key: total {}, {} ids charged, {} keys stored", end.weight_used, end.charged.len(), end.stored.len()), case.clone());
            }
            counts.inc("fanout_final_zero_checks");
        }
    } else if !stuck { stuck = true; }
    if stuck && findings.is_empty() { findings.push(Finding { props: vec!["C05"], signature: "inconclusive/fanout".into(), detail: "the fan-out did not reach quiescence".into(), witness: J::Null, inconclusive: true }); }
    let _ = r.take_weight_violations();
    if let Err(waited) = sut.finish_or_leak() { if findings.is_empty() { findings.push(Finding { props: vec!["C05"], signature: "inconclusive/finish".into(), detail: waited_name(&waited), witness: J::Null, inconclusive: true }); } }
    counts.inc("cases");
    let nontrivial = counts.get("fanout_accounting_checks") > 0;
    CaseOut { findings, counts, signature: fnv_step(sig, per_thread), nontrivial, sample: case }
}

// ------------------------------------------------------------------------------------------------ C16: counters at the instant an acknowledgement resolves

/// One client, no sweeper, nothing else running: each write is polled in a tight loop and the very moment its acknowledgement is Ready the
/// counters are read. Nothing is in flight at that moment, so they must already be exact: KeysRejected for a put refused by admission,
/// KeysAdded / WeightAdded for an accepted put, KeysDeleted / WeightRemoved for an accepted delete, and WeightAdded - WeightRemoved must be the
/// total. Tens of thousands of acknowledgements per second reach a counter that is bumped a few instructions after `done()`.
pub fn run_ack_stats(focus: &'static str, seed: u64, index: u64) -> CaseOut {
    let mut rng = rt::rng_for(seed, index, 0xAC5);
    let refusals = index % 2 == 0;
    let rounds = 12_000u64;
    let sutcfg = SutCfg { counters: 1_000_000, capacity: 64, max_weight: if refusals { 100 } else { 1_000_000_000 }, shards: 2, cmd_buf: *rng.pick(&[1usize, 8, 64]), pool: 1, buf: 1, tick: Duration::from_secs(3600),
        weight_mode: WeightMode::Custom, hash_mode: HashMode::Default, start_ns: rt::START_NS };
    let case = J::obj().with("engine", J::s("conc")).with("scenario", J::s("ack-stats")).with("focus", J::s(focus)).with("seed", J::Int(seed as i128)).with("index", J::Int(index as i128))
        .with("phase", J::s(if refusals { "puts refused by admission" } else { "accepted puts and deletes" }));
    let mut counts = Counts::default();
    let mut findings = Vec::new();
    rt::clear_abort();
    let r = recorder();
    r.keep.store(false, Ordering::SeqCst);
    let _ = r.take_events();
    sched().release_all();
    sched().quiet();
    let sut = Sut::new(sutcfg);
    let marks = sut.marks;
    let waker = rt::CountingWaker::new();
    let tight = |issued: Issued| -> Option<CommandStatus> {
        match issued {
            Issued::Ack(ack, _) => { for _ in 0..200_000_000u64 { if let Poll::Ready(s) = rt::poll_once(ack.handle(), &waker) { return Some(s); } std::hint::spin_loop(); } None }
            _ => None,
        }
    };
    let stat = |t: StatsType| sut.cache.stats_summary().get(&t).unwrap_or(0);
    let mut setup = Client::new(1);
    let mut stuck = false;
    if refusals {
        for key in 1..=4u64 { let value = setup.token(key); setup.write(&sut.cache, WriteOp::PutW { key, value, weight: 25 }); }
        setup.settle_all(&marks);
        for _ in 0..3 { for key in 1..=4u64 { let _ = sut.cache.get(&key); } }
        let _ = sut.quiesce();
        let base = stat(StatsType::KeysRejected);
        for n in 1..=rounds {
            let key = 1000 + n;
            match tight(issue(&sut.cache, &WriteOp::PutW { key, value: token(key, 2, n), weight: 25 })) {
                Some(CommandStatus::Rejected(RejectionReason::EnoughSpaceIsNotAvailableAndKeyFailedToEvictOthers)) => {
                    let seen = stat(StatsType::KeysRejected) - base;
                    if seen != n {
                        fail(&mut findings, &["C16"], "C16/keys-rejected-stale-when-the-acknowledgement-resolves".into(),
                             format!("the {}th refused put has just been acknowledged (nothing else is in flight) and KeysRejected says {}", n, seen), case.clone());
                        break;
                    }
                }
                Some(other) => { counts.inc("unexpected_outcomes_in_the_refusal_loop"); let _ = other; break; }
                None => { stuck = true; break; }
            }
            counts.inc("counters_read_the_moment_an_acknowledgement_resolved");
        }
    } else {
        let (mut added, mut deleted, mut w_added, mut w_removed) = (0u64, 0u64, 0u64, 0u64);
        for n in 1..=rounds {
            let key = 1 + n % 7;
            let weight = 10 + (n % 13) as i64;
            match tight(issue(&sut.cache, &WriteOp::PutW { key, value: token(key, 2, n), weight })) {
                Some(CommandStatus::Accepted) => {
                    added += 1; w_added += weight as u64;
                    let (a, wa, wr, total) = (stat(StatsType::KeysAdded), stat(StatsType::WeightAdded), stat(StatsType::WeightRemoved), sut.cache.total_weight_used());
                    if a != added || wa != w_added || (wa as i64 - wr as i64) != total {
                        fail(&mut findings, &["C16"], "C16/counters-stale-when-the-acknowledgement-of-a-put-resolves".into(),
                             format!("put #{} accepted: KeysAdded {} (expected {}), WeightAdded {} (expected {}), WeightRemoved {}, total {}", n, a, added, wa, w_added, wr, total), case.clone());
                        break;
                    }
                }
                Some(CommandStatus::Rejected(RejectionReason::KeyAlreadyExists)) => {}
                Some(_) => { counts.inc("unexpected_outcomes_in_the_accept_loop"); break; }
                None => { stuck = true; break; }
            }
            if n % 2 == 0 {
                let charged = sut.snapshot().stored.iter().find(|e| e.0 == key).and_then(|e| sut.cache.verif_charged_weight(e.1)).unwrap_or(0);
                match tight(issue(&sut.cache, &WriteOp::Delete { key })) {
                    Some(CommandStatus::Accepted) => {
                        deleted += 1; w_removed += charged as u64;
                        let (d, wa, wr, total) = (stat(StatsType::KeysDeleted), stat(StatsType::WeightAdded), stat(StatsType::WeightRemoved), sut.cache.total_weight_used());
                        if d != deleted || wr != w_removed || (wa as i64 - wr as i64) != total {
                            fail(&mut findings, &["C16"], "C16/counters-stale-when-the-acknowledgement-of-a-delete-resolves".into(),
                                 format!("delete #{} accepted: KeysDeleted {} (expected {}), WeightRemoved {} (expected {}), WeightAdded {}, total {}", deleted, d, deleted, wr, w_removed, wa, total), case.clone());
                            break;
                        }
                    }
                    Some(_) => {}
                    None => { stuck = true; break; }
                }
            }
            counts.inc("counters_read_the_moment_an_acknowledgement_resolved");
        }
    }
    if stuck { findings.push(Finding { props: vec!["C16"], signature: "inconclusive/ack-stats".into(), detail: "an acknowledgement did not resolve in the tight loop".into(), witness: J::Null, inconclusive: true }); }
    let nontrivial = counts.get("counters_read_the_moment_an_acknowledgement_resolved") > 1000;
    if let Err(waited) = sut.finish_or_leak() { if findings.is_empty() { findings.push(Finding { props: vec!["C16"], signature: "inconclusive/finish".into(), detail: waited_name(&waited), witness: J::Null, inconclusive: true }); } }
    counts.inc("cases");
    CaseOut { findings, counts, signature: fnv_step(0xAC5, index % 6), nontrivial, sample: case }
}

// ------------------------------------------------------------------------------------------------ the last handle of the cache is dropped with writes still queued

/// Writes are queued behind a held worker, the caller keeps their acknowledgements and drops its (last) handle of the cache without
/// calling shutdown(). Every write that was queued must still be executed and acknowledged with a real outcome, in order.
pub fn run_drop_backlog(focus: &'static str, seed: u64, index: u64) -> CaseOut {
    let mut rng = rt::rng_for(seed, index, 0xD209);
    let n = rng.range(3, 40);
    let sutcfg = SutCfg { counters: 100, capacity: 16, max_weight: 100_000, shards: 2, cmd_buf: 64, pool: 1, buf: 2, tick: Duration::from_millis(1),
        weight_mode: WeightMode::Custom, hash_mode: HashMode::Default, start_ns: rt::START_NS };
    let case = J::obj().with("engine", J::s("conc")).with("scenario", J::s("drop-backlog")).with("focus", J::s(focus)).with("seed", J::Int(seed as i128)).with("index", J::Int(index as i128)).with("queued_writes", J::Int(n as i128));
    let mut counts = Counts::default();
    let mut findings = Vec::new();
    rt::clear_abort();
    let r = recorder();
    r.keep.store(false, Ordering::SeqCst);
    r.track_acked.store(true, Ordering::SeqCst);
    let _ = r.take_events();
    r.clear_acked();
    sched().release_all();
    sched().quiet();
    let sut = Sut::new(sutcfg);
    let marks = sut.marks;
    let Sut { cache, .. } = sut;
    sched().arm(Site::WorkerDequeued, 0);
    let mut acks: Vec<(Arc<CommandAcknowledgement>, u64, WriteOp)> = Vec::new();
    let first = issue(&cache, &WriteOp::Delete { key: 77 });
    let mut entered = false;
    if sched().wait_holding(Site::WorkerDequeued, Duration::from_secs(5)) {
        entered = true;
        for i in 0..n {
            let key = 1 + i % 5;
            let op = match rng.below(3) { 0 => WriteOp::Delete { key }, 1 => WriteOp::PutW { key, value: token(key, 1, i + 1), weight: 10 }, _ => WriteOp::Upsert { key, value: Some(token(key, 1, i + 1)), weight: Some(12), ttl: None, remove_ttl: false } };
            if let Issued::Ack(ack, uid) = issue(&cache, &op) { if uid != 0 { acks.push((ack, uid, op)); } }
        }
    }
    // the last handle goes away while the queue is full of work
    let dropped = match Arc::try_unwrap(cache) { Ok(cache) => { drop(cache); true } Err(still_shared) => { std::mem::forget(still_shared); false } };
    sched().release(Site::WorkerDequeued);
    if let Issued::Ack(ack, uid) = first { let _ = rt::await_ack(ack.handle(), uid, &marks); }
    if entered && dropped {
        counts.inc("caches_dropped_with_writes_still_queued");
        for (ack, uid, op) in &acks {
            match rt::await_ack(ack.handle(), *uid, &marks) {
                Waited::Ready(CommandStatus::Pending) | Waited::ReadyPending => fail(&mut findings, &["C12", "C11"], "C12/ready-pending".into(), format!("{} resolved to Pending", op.shape()), case.clone()),
                Waited::Ready(CommandStatus::ShuttingDown) => { fail(&mut findings, &["C11", "C13"], "C11/queued-write-refused-after-the-cache-was-dropped".into(), format!("{} was queued before the handle was dropped (shutdown() was never called) and was answered ShuttingDown", op.shape()), case.clone()); break; }
                Waited::Ready(_) => { counts.inc("queued_writes_acknowledged_after_the_drop"); }
                Waited::Inconclusive(reason) => { findings.push(Finding { props: vec![focus], signature: "inconclusive/drop-backlog".into(), detail: reason, witness: J::Null, inconclusive: true }); break; }
                other => { fail(&mut findings, &["C11", "C12"], "C11/queued-write-never-executed/cache-dropped".into(), format!("{} was queued, then the last handle of the cache was dropped: its acknowledgement never resolves ({})", op.shape(), waited_name(&other)), case.clone()); break; }
            }
        }
    } else { counts.inc("window_not_entered"); }
    let nontrivial = counts.get("queued_writes_acknowledged_after_the_drop") > 0;
    // the background threads of the dropped cache wind down by themselves
    let _ = rt::wait_until("the worker of the dropped cache to exit", || { let w = rt::role_index(Role::Worker); recorder().exited[w].load(Ordering::SeqCst) > marks.exited[w] });
    counts.inc("cases");
    CaseOut { findings, counts, signature: fnv_step(0xD209, n), nontrivial, sample: case }
}

// ------------------------------------------------------------------------------------------------ long quiet periods and long stalls (real time; thorough tier)

/// Two things only real time can show. Variant 0: the worker is held for 12 s while the one-slot queue is full and a caller is blocked in
/// its send: when the worker resumes, that write must have been queued and applied, not refused. Variant 1: the cache is left alone for 62 s
/// (no write reaches the queue); the next write must be accepted and applied like any other.
pub fn run_idle(focus: &'static str, seed: u64, index: u64) -> CaseOut {
    let variant = index % 2;
    let sutcfg = SutCfg { counters: 100, capacity: 16, max_weight: 100_000, shards: 2, cmd_buf: 1, pool: 1, buf: 2, tick: Duration::from_millis(1),
        weight_mode: WeightMode::Custom, hash_mode: HashMode::Default, start_ns: rt::START_NS };
    let case = J::obj().with("engine", J::s("conc")).with("scenario", J::s("idle")).with("focus", J::s(focus)).with("seed", J::Int(seed as i128)).with("index", J::Int(index as i128))
        .with("variant", J::s(if variant == 0 { "worker stalled for 12 s behind a full queue" } else { "62 s without a write" }));
    let mut counts = Counts::default();
    let mut findings = Vec::new();
    rt::clear_abort();
    let r = recorder();
    r.keep.store(false, Ordering::SeqCst);
    let _ = r.take_events();
    sched().release_all();
    sched().quiet();
    let sut = Sut::new(sutcfg);
    let marks = sut.marks;
    let mut client = Client::new(1);
    let va = client.token(1);
    client.write(&sut.cache, WriteOp::PutW { key: 1, value: va, weight: 10 });
    client.settle_all(&marks);
    let judge = |findings: &mut Vec<Finding>, client: &Client, what: &str| {
        for rec in &client.log {
            if let Outcome::Write { op, error, status, .. } = &rec.outcome {
                if let Some(e) = error { fail(findings, &["C11", "C17", "C13"], format!("C11/write-refused-while-the-cache-is-running/{}", what), format!("{} returned an error although the cache was never shut down: {}", op.shape(), e), case.clone()); }
                else if !matches!(status, Some(Waited::Ready(CommandStatus::Accepted))) { fail(findings, &["C11", "C17", "C12"], format!("C11/write-not-applied/{}", what), format!("{} resolved to {:?}", op.shape(), status.as_ref().map(waited_name)), case.clone()); }
            }
        }
    };
    if variant == 0 {
        sched().max_gate_hold_ms.store(30_000, Ordering::SeqCst);
        sched().arm(Site::WorkerDequeued, 0);
        let vb = client.token(2);
        client.write(&sut.cache, WriteOp::PutW { key: 2, value: vb, weight: 10 });
        if sched().wait_holding(Site::WorkerDequeued, Duration::from_secs(5)) {
            let vc = client.token(3);
            client.write(&sut.cache, WriteOp::PutW { key: 3, value: vc, weight: 10 }); // fills the only slot
            let (cache, go) = (sut.cache.clone(), Arc::new(AtomicBool::new(false)));
            let started = go.clone();
            let blocked = thread::spawn(move || { let mut late = Client::new(2); let v = late.token(4); started.store(true, Ordering::SeqCst); late.write(&cache, WriteOp::PutW { key: 4, value: v, weight: 10 }); late.settle_all(&marks); late });
            while !go.load(Ordering::SeqCst) { thread::yield_now(); }
            thread::sleep(Duration::from_secs(12));
            sched().release(Site::WorkerDequeued);
            client.settle_all(&marks);
            if let Some(mut lates) = rt::join_helpers("the caller that was blocked in send", vec![blocked]) {
                let late = lates.remove(0);
                judge(&mut findings, &late, "after-a-long-stall");
                if findings.is_empty() && sut.cache.get(&4).is_none() { fail(&mut findings, &["C11", "C03"], "C11/write-not-applied/after-a-long-stall".into(), "key 4 was accepted after the stall but is not readable".into(), case.clone()); }
                counts.inc("writes_that_waited_12_s_for_a_queue_slot");
            }
            judge(&mut findings, &client, "after-a-long-stall");
        } else { sched().release(Site::WorkerDequeued); client.settle_all(&marks); counts.inc("window_not_entered"); }
        sched().max_gate_hold_ms.store(3_000, Ordering::SeqCst);
    } else {
        // ten recorded hits of key 1 before the quiet period: ageing is a matter of recorded accesses (100 here), not of elapsed time
        for _ in 0..12 { let _ = sut.cache.get(&1); }
        let _ = sut.quiesce();
        thread::sleep(Duration::from_secs(62));
        for _ in 0..6 { let _ = sut.cache.get(&1); }
        let _ = sut.quiesce();
        let estimate = sut.cache.verif_estimate(&1) as u64;
        if sut.stat(StatsType::AccessDropped) == 0 && estimate < 15 {
            fail(&mut findings, &["C14"], "C14/estimate-under-counts/after-a-long-quiet-period".into(), format!("key 1 was read 18 times (at most 2 still buffered, none dropped, 100 counters: no ageing is due) but its estimate after 62 quiet seconds is {}", estimate), case.clone());
        }
        counts.inc("estimates_checked_after_62_s_of_quiet");
        let mut after = Client::new(3);
        let v = after.token(5);
        after.write(&sut.cache, WriteOp::PutW { key: 5, value: v, weight: 10 });
        after.write(&sut.cache, WriteOp::Delete { key: 1 });
        after.settle_all(&marks);
        judge(&mut findings, &after, "after-a-long-quiet-period");
        if findings.is_empty() && (sut.cache.get(&5) != Some(v) || sut.cache.get(&1).is_some()) { fail(&mut findings, &["C11", "C03"], "C11/write-not-applied/after-a-long-quiet-period".into(), "the writes after the quiet period were acknowledged but not applied".into(), case.clone()); }
        counts.inc("writes_after_62_s_of_quiet");
    }
    let nontrivial = counts.get("writes_that_waited_12_s_for_a_queue_slot") + counts.get("writes_after_62_s_of_quiet") > 0;
    if let Err(waited) = sut.finish_or_leak() { if findings.is_empty() { findings.push(Finding { props: vec![focus], signature: "inconclusive/finish".into(), detail: waited_name(&waited), witness: J::Null, inconclusive: true }); } }
    counts.inc("cases");
    CaseOut { findings, counts, signature: fnv_step(0x1D1E, variant), nontrivial, sample: case }
}

// ------------------------------------------------------------------------------------------------ slow sweeper ticks (whole seconds of real time)

/// The sweeper ticks every 2 or 3 s of REAL time (the default is 5 s), so anything it derives from the length of its tick becomes visible,
/// which millisecond ticks hide. The clock stands at x.7 s. Key B's deadline (x.2 s) has passed, key A's deadline (x+1.3 s) lies in the NEXT
/// second, key C's two seconds further. After one real tick: B is swept, A and C are still readable (the clock has not moved). Then the
/// clock passes A's deadline; after another tick A is swept and released, C is still there. One case costs two ticks of wall-clock time.
pub fn run_slow_tick(focus: &'static str, seed: u64, index: u64) -> CaseOut {
    let mut rng = rt::rng_for(seed, index, 0x5107);
    let tick_s = 2 + index % 2;
    let shards = *rng.pick(&[2usize, 4, 256]);
    let sutcfg = SutCfg { counters: 100, capacity: 16, max_weight: 100_000, shards, cmd_buf: 8, pool: 1, buf: 2, tick: Duration::from_secs(tick_s),
        weight_mode: WeightMode::Custom, hash_mode: HashMode::Default, start_ns: rt::START_NS };
    let case = J::obj().with("engine", J::s("conc")).with("scenario", J::s("slow-tick")).with("focus", J::s(focus)).with("seed", J::Int(seed as i128)).with("index", J::Int(index as i128))
        .with("tick_seconds", J::Int(tick_s as i128)).with("ttl_shards", J::u(shards));
    let mut counts = Counts::default();
    let mut findings = Vec::new();
    rt::clear_abort();
    let r = recorder();
    r.keep.store(false, Ordering::SeqCst);
    let _ = r.take_events();
    sched().release_all();
    sched().quiet();
    let sut = Sut::new(sutcfg);
    let marks = sut.marks;
    let mut client = Client::new(1);
    let (va, vb, vc) = (client.token(1), client.token(2), client.token(3));
    // the start time is a whole second
    client.write(&sut.cache, WriteOp::PutWTtl { key: 2, value: vb, weight: 30, ttl: Duration::from_millis(200) });
    client.settle_all(&marks);
    sut.advance(700_000_000);
    client.write(&sut.cache, WriteOp::PutWTtl { key: 1, value: va, weight: 30, ttl: Duration::from_millis(600) });
    client.write(&sut.cache, WriteOp::PutWTtl { key: 3, value: vc, weight: 30, ttl: Duration::from_millis(2_600 + 1000 * (index % 2)) });
    client.settle_all(&marks);
    let wait_sweeps = |n: u64| -> bool {
        let target = recorder().sweeps() + n;
        let started = Instant::now();
        // real time: the sweeper sleeps for its tick; this is a bounded wait for an event, not a verdict
        while recorder().sweeps() < target { if started.elapsed() > Duration::from_secs(tick_s * (n + 2) + 5) { return false; } thread::sleep(Duration::from_millis(20)); }
        true
    };
    let mut conclusive = wait_sweeps(1);
    let witness = |text: &str| case.clone().with("at", J::s(text));
    if conclusive {
        counts.inc("slow_ticks_observed");
        if sut.cache.get(&1) != Some(va) {
            fail(&mut findings, &["C09", "C10", "C03"], "C09/key-hidden-before-its-deadline/slow-tick".into(),
                 format!("key 1 expires 600 ms from now (in the next whole second); after one sweeper tick of {} s with the clock standing still it reads {:?}", tick_s, sut.cache.get(&1)), witness("after the first tick"));
        }
        if sut.cache.get(&3) != Some(vc) {
            fail(&mut findings, &["C09", "C10", "C03"], "C09/key-hidden-before-its-deadline/slow-tick".into(),
                 format!("key 3 expires more than two seconds from now; after one sweeper tick of {} s with the clock standing still it reads {:?}", tick_s, sut.cache.get(&3)), witness("after the first tick"));
        }
        let snapshot = sut.snapshot();
        if snapshot.stored.iter().any(|e| e.0 == 2) {
            // B's second is the second the clock stands in: this tick must have visited its shard
            fail(&mut findings, &["C10"], "C10/expired-key-not-swept-by-the-tick-of-its-own-second/slow-tick".into(), "key 2 expired 500 ms ago in the second the clock stands in, the sweeper ticked, and it is still stored".into(), witness("after the first tick"));
        }
        if findings.is_empty() && snapshot.weight_used != 60 {
            fail(&mut findings, &["C10", "C05"], "C10/weight-after-slow-tick".into(), format!("two keys of weight 30 are held, the total is {}", snapshot.weight_used), witness("after the first tick"));
        }
        // cross A's deadline (x+1.3 s): the clock now stands at x+1.4 s, in A's second
        sut.advance(700_000_000);
        if sut.cache.get(&1).is_some() { fail(&mut findings, &["C09"], "C09/expired-value-served/slow-tick".into(), "key 1 is 100 ms past its deadline and still readable".into(), witness("after the second advance")); }
        conclusive = wait_sweeps(1);
        if conclusive {
            counts.inc("slow_ticks_observed");
            let snapshot = sut.snapshot();
            if snapshot.stored.iter().any(|e| e.0 == 1) || snapshot.weight_used != 30 {
                fail(&mut findings, &["C10"], "C10/expired-key-not-swept-by-the-tick-of-its-own-second/slow-tick".into(), format!("key 1 expired in the second the clock stands in and the sweeper ticked; stored: {}, total {}", snapshot.stored.iter().any(|e| e.0 == 1), snapshot.weight_used), witness("after the second tick"));
            }
            if sut.cache.get(&3) != Some(vc) {
                fail(&mut findings, &["C09", "C10", "C03"], "C09/key-hidden-before-its-deadline/slow-tick".into(), format!("key 3 is still more than a second before its deadline and reads {:?}", sut.cache.get(&3)), witness("after the second tick"));
            }
            counts.inc("slow_tick_cases_completed");
        }
    }
    if !conclusive { findings.push(Finding { props: vec![focus], signature: "inconclusive/slow-tick".into(), detail: "the sweeper did not tick within the allotted real time".into(), witness: J::Null, inconclusive: true }); }
    // (shutdown does not wake the sweeper: it notices at its next tick, which finish() waits for)
    let nontrivial = counts.get("slow_tick_cases_completed") > 0;
    if let Err(waited) = sut.finish_or_leak() { if findings.is_empty() { findings.push(Finding { props: vec![focus], signature: "inconclusive/finish".into(), detail: waited_name(&waited), witness: J::Null, inconclusive: true }); } }
    counts.inc("cases");
    CaseOut { findings, counts, signature: fnv_step(0x5107, tick_s * 1000 + shards as u64), nontrivial, sample: case }
}

// ------------------------------------------------------------------------------------------------ bare workload (sanitizers, Miri)

/// The same kind of mixed concurrent workload, but with NO harness hooks installed and no shared harness state
/// on the hot path (no stamps, no recorder): the sanitizer / interpreter is the oracle here, so the monitor must
/// not add happens-before edges of its own. Only value sanity is checked (a returned token belongs to its key,
/// no acknowledgement resolves to Pending, every acknowledgement resolves).
pub fn run_bare(focus: &'static str, seed: u64, index: u64, args: &Args) -> CaseOut {
    let mut rng = rt::rng_for(seed, index, 0xBA);
    let threads = args.u64("threads", 4) as usize;
    let ops = args.u64("ops", 200);
    let keys = args.u64("keys", 3);
    let miri = args.u64("miri", 0) == 1;
    // (under Miri the delays inside user code are switched off: its clock is virtual and a spin on it only costs interpreter time)
    #[cfg(feature = "typed")]
    if miri { crate::typed::set_user_perturbation(1, 0); }
    let sutcfg = SutCfg { counters: 16, capacity: 4, max_weight: if rng.chance(1, 2) { 120 } else { 100_000 }, shards: 2, cmd_buf: if miri { 4 } else { *rng.pick(&[1usize, 2, 8]) }, pool: 1,
        buf: if miri { 2 } else { *rng.pick(&[1usize, 2]) }, tick: Duration::from_millis(if miri { 5 } else { 1 }), weight_mode: WeightMode::Custom,
        hash_mode: if rng.chance(1, 3) { HashMode::Constant } else { HashMode::Default }, start_ns: rt::START_NS };
    let case = J::obj().with("engine", J::s("conc")).with("scenario", J::s("bare")).with("focus", J::s(focus)).with("seed", J::Int(seed as i128))
        .with("index", J::Int(index as i128)).with("threads", J::u(threads)).with("ops_per_thread", J::Int(ops as i128)).with("config", sutcfg.to_json());
    let mut counts = Counts::default();
    let mut findings = Vec::new();
    let (cache, clock) = build_cache(&sutcfg);
    let max_polls: u64 = if miri { 20_000 } else { 200_000_000 };
    let mut handles = Vec::new();
    for t in 0..threads {
        let cache = cache.clone();
        let clock = clock.clone();
        let mut rng = rt::rng_for(seed, index, 600 + t as u64);
        handles.push(thread::spawn(move || {
            let me = t as u64 + 1;
            let mut problems: Vec<String> = Vec::new();
            let mut counter = 0u64;
            let mut reads = 0u64;
            let mut writes = 0u64;
            let waker = rt::CountingWaker::new();
            for n in 0..ops {
                let key = rng.range(1, keys);
                counter += 1;
                if rng.chance(2, 5) {
                    if let Some(value) = read(&cache, (n % 7) as usize, key) { if token_key(value) != key { problems.push(format!("foreign value {:#x} for key {}", value, key)); } }
                    reads += 1;
                } else {
                    let value = token(key, me, counter);
                    let ttl = Duration::from_nanos(rng.range(0, 2 * NS));
                    let op = match rng.below(8) {
                        0 => WriteOp::Put { key, value }, 1 => WriteOp::PutTtl { key, value, ttl }, 2 => WriteOp::PutWTtl { key, value, weight: rng.range(25, 60) as i64, ttl },
                        3 => WriteOp::Upsert { key, value: Some(value), weight: None, ttl: Some(ttl), remove_ttl: false },
                        4 => WriteOp::Upsert { key, value: Some(value), weight: Some(rng.range(25, 50) as i64), ttl: None, remove_ttl: false },
                        5 => WriteOp::Upsert { key, value: Some(value), weight: Some(rng.range(30, 50) as i64), ttl: None, remove_ttl: true },
                        _ => WriteOp::Delete { key },
                    };
                    writes += 1;
                    match issue(&cache, &op) {
                        Issued::Ack(ack, _) => {
                            // an executor that polls until ready (yielding in between)
                            let mut polls = 0u64;
                            loop {
                                match rt::poll_once(ack.handle(), &waker) {
                                    Poll::Ready(CommandStatus::Pending) => { problems.push("ready-pending".into()); break; }
                                    Poll::Ready(_) => break,
                                    Poll::Pending => {}
                                }
                                polls += 1;
                                if polls > max_polls { problems.push("acknowledgement-never-resolved".into()); break; }
                                thread::yield_now();
                            }
                        }
                        Issued::SendError(e) => problems.push(format!("send error while running: {}", e)),
                        Issued::Panicked(m) => problems.push(format!("panic in caller: {}", m)),
                    }
                }
                if t == 0 && n % 8 == 7 { clock.advance(NS / 2); }
            }
            (problems, reads, writes)
        }));
    }
    for handle in handles {
        match handle.join() {
            Ok((problems, reads, writes)) => {
                counts.add("bare_reads", reads); counts.add("bare_writes", writes);
                for p in problems {
                    let (props, sig): (Vec<&'static str>, String) = if p.starts_with("foreign") { (vec!["C02"], "C02/foreign-value/bare".into()) }
                        else if p.starts_with("ready-pending") { (vec!["C12"], "C12/ready-pending".into()) }
                        else if p.starts_with("acknowledgement") { (vec!["C18", "C12"], "C18/acknowledgement-never-resolved/bare".into()) }
                        else if p.starts_with("panic") { (vec!["C17"], "C17/panic-in-caller/bare".into()) } else { (vec!["C13"], "C13/send-error-while-running/bare".into()) };
                    fail(&mut findings, &props, sig, p, case.clone());
                }
            }
            Err(_) => fail(&mut findings, &["C17"], "C17/client-thread-died/bare".into(), "a client thread panicked".into(), case.clone()),
        }
    }
    cache.shutdown();
    for v in 0..7 { if read(&cache, v, 1).is_some() { fail(&mut findings, &["C13"], "C13/api-works-after-shutdown/bare".into(), "a read returned a value after shutdown".into(), case.clone()); } }
    drop(cache);
    counts.inc("cases");
    let signature = fnv_step(fnv_step(0xBA, seed), index);
    CaseOut { findings, counts, signature, nontrivial: true, sample: case }
}

/// Number of distinct (site a on thread x) -> (site b on thread y != x) adjacencies in the trace: a measure of
/// how many different cross-thread orderings of critical sections the run produced.
fn lock_site_pairs(trace: &[(u64, u64, Site)]) -> usize {
    let mut pairs: BTreeSet<(usize, usize)> = BTreeSet::new();
    for window in trace.windows(2) {
        if window[0].1 != window[1].1 { pairs.insert((site_index(window[0].2), site_index(window[1].2))); }
    }
    pairs.len()
}

#[allow(dead_code)]
fn unused() { let _ = (Role::Worker, RejectionReason::KeyDoesNotExist, Rng::new(1)); }
