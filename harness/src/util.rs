//! Small dependency-free utilities: PRNG, JSON writer, hashing.
use std::collections::BTreeMap;
use std::fmt::Write;

/// SplitMix64: tiny, seedable, good enough for workload generation.
#[derive(Clone, Debug)]
pub struct Rng(pub u64);

impl Rng {
    pub fn new(seed: u64) -> Self { Rng(seed ^ 0x9E37_79B9_7F4A_7C15) }
    pub fn next(&mut self) -> u64 {
        self.0 = self.0.wrapping_add(0x9E37_79B9_7F4A_7C15);
        let mut z = self.0;
        z = (z ^ (z >> 30)).wrapping_mul(0xBF58_476D_1CE4_E5B9);
        z = (z ^ (z >> 27)).wrapping_mul(0x94D0_49BB_1331_11EB);
        z ^ (z >> 31)
    }
    /// uniform in 0..n (n > 0)
    pub fn below(&mut self, n: u64) -> u64 { self.next() % n }
    pub fn range(&mut self, lo: u64, hi_inclusive: u64) -> u64 { lo + self.below(hi_inclusive - lo + 1) }
    pub fn chance(&mut self, num: u64, den: u64) -> bool { self.below(den) < num }
    pub fn pick<'a, T>(&mut self, items: &'a [T]) -> &'a T { &items[self.below(items.len() as u64) as usize] }
    pub fn fork(&mut self) -> Rng { Rng::new(self.next()) }
}

pub fn mix(a: u64, b: u64) -> u64 {
    let mut r = Rng::new(a ^ b.rotate_left(17).wrapping_mul(0x2545_F491_4F6C_DD1D));
    r.next()
}

/// FNV-1a over bytes, for signatures.
pub fn fnv(bytes: &[u8]) -> u64 {
    let mut h: u64 = 0xcbf2_9ce4_8422_2325;
    for b in bytes {
        h ^= *b as u64;
        h = h.wrapping_mul(0x0000_0100_0000_01b3);
    }
    h
}

pub fn fnv_step(h: u64, v: u64) -> u64 {
    let mut h = h;
    for b in v.to_le_bytes() {
        h ^= b as u64;
        h = h.wrapping_mul(0x0000_0100_0000_01b3);
    }
    h
}

#[derive(Clone, Debug)]
pub enum J {
    Null,
    Bool(bool),
    Int(i128),
    Float(f64),
    Str(String),
    Arr(Vec<J>),
    Obj(BTreeMap<String, J>),
}

impl J {
    pub fn obj() -> J { J::Obj(BTreeMap::new()) }
    pub fn arr() -> J { J::Arr(Vec::new()) }
    pub fn s<S: Into<String>>(s: S) -> J { J::Str(s.into()) }
    pub fn i<I: Into<i128>>(i: I) -> J { J::Int(i.into()) }
    pub fn u(i: usize) -> J { J::Int(i as i128) }
    pub fn set<S: Into<String>>(&mut self, key: S, value: J) -> &mut J {
        if let J::Obj(map) = self { map.insert(key.into(), value); }
        self
    }
    pub fn with<S: Into<String>>(mut self, key: S, value: J) -> J { self.set(key, value); self }
    pub fn push(&mut self, value: J) { if let J::Arr(items) = self { items.push(value); } }
    pub fn render(&self) -> String { let mut out = String::new(); self.write(&mut out); out }
    fn write(&self, out: &mut String) {
        match self {
            J::Null => out.push_str("null"),
            J::Bool(b) => out.push_str(if *b { "true" } else { "false" }),
            J::Int(i) => { let _ = write!(out, "{}", i); }
            J::Float(f) => { if f.is_finite() { let _ = write!(out, "{}", f); } else { out.push_str("null"); } }
            J::Str(s) => {
                out.push('"');
                for c in s.chars() {
                    match c {
                        '"' => out.push_str("\\\""),
                        '\\' => out.push_str("\\\\"),
                        '\n' => out.push_str("\\n"),
                        '\r' => out.push_str("\\r"),
                        '\t' => out.push_str("\\t"),
                        c if (c as u32) < 0x20 => { let _ = write!(out, "\\u{:04x}", c as u32); }
                        c => out.push(c),
                    }
                }
                out.push('"');
            }
            J::Arr(items) => {
                out.push('[');
                for (i, item) in items.iter().enumerate() {
                    if i > 0 { out.push(','); }
                    item.write(out);
                }
                out.push(']');
            }
            J::Obj(map) => {
                out.push('{');
                for (i, (k, v)) in map.iter().enumerate() {
                    if i > 0 { out.push(','); }
                    J::Str(k.clone()).write(out);
                    out.push(':');
                    v.write(out);
                }
                out.push('}');
            }
        }
    }
}

/// A counter map rendered as a JSON object.
#[derive(Default, Clone, Debug)]
pub struct Counts(pub BTreeMap<String, u64>);

impl Counts {
    pub fn add<S: Into<String>>(&mut self, key: S, n: u64) { *self.0.entry(key.into()).or_insert(0) += n; }
    pub fn inc<S: Into<String>>(&mut self, key: S) { self.add(key, 1); }
    pub fn get(&self, key: &str) -> u64 { self.0.get(key).copied().unwrap_or(0) }
    pub fn merge(&mut self, other: &Counts) { for (k, v) in &other.0 { self.add(k.clone(), *v); } }
    pub fn to_json(&self) -> J {
        let mut o = J::obj();
        for (k, v) in &self.0 { o.set(k.clone(), J::Int(*v as i128)); }
        o
    }
}
