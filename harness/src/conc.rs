//! C-mode: N client threads against one real cache, few keys, un-awaited writes, schedule perturbation and
//! directed gates. Every client call is recorded at the client boundary (call stamp before invoking, return
//! stamp after the reply, both from one global counter); acknowledgements are awaited with a real waker.
//! Offline checkers then decide the per-key read rules (C02/C04), the quiescent accounting (C05), the
//! command order (C11), shutdown (C13), hit accounting (C15) and the online weight bound (C01).
use std::collections::{BTreeMap, BTreeSet, HashMap};
use std::sync::atomic::{AtomicBool, AtomicI64, AtomicU64, Ordering};
use std::sync::{Arc, Mutex};
use std::thread;
use std::time::{Duration, Instant};

use tinylfu_cached::cache::command::acknowledgement::CommandAcknowledgement;
use tinylfu_cached::cache::command::{CommandStatus, RejectionReason};
use tinylfu_cached::cache::stats::StatsType;
use tinylfu_cached::cache::verif::{CommandKind, Event, Role, Site};

use crate::props::Shard;
use crate::rt::{self, recorder, sched, Waited};
use crate::seq::{Finding, NS};
use crate::sut::*;
use crate::util::{fnv_step, Counts, Rng, J};
use crate::Args;

#[derive(Clone, Debug)]
pub enum Outcome {
    Read { key: u64, variant: usize, got: Option<u64> },
    Write { op: WriteOp, uid: u64, error: Option<String>, panicked: Option<String>, status: Option<Waited>, acked_at: Option<u64> },
    Shutdown,
}

#[derive(Clone, Debug)]
pub struct OpRec {
    pub thread: u64,
    pub call: u64,
    pub ret: u64,
    /// harness clock (ns) read before the call / after the reply (reads) or after the acknowledgement was observed (writes); 0 = not recorded
    pub clk_call: u64,
    pub clk_done: u64,
    pub outcome: Outcome,
}

impl OpRec {
    pub fn to_json(&self) -> J {
        let mut o = J::obj().with("thread", J::Int(self.thread as i128)).with("call", J::Int(self.call as i128)).with("ret", J::Int(self.ret as i128));
        match &self.outcome {
            Outcome::Read { key, variant, got } => {
                o.set("op", J::s(READ_VARIANTS[*variant % 7])); o.set("key", J::Int(*key as i128));
                o.set("got", got.map(|g| J::s(format!("{:#x}", g))).unwrap_or(J::Null));
            }
            Outcome::Write { op, uid, error, panicked, status, acked_at } => {
                o.set("write", op.to_json()); o.set("uid", J::Int(*uid as i128));
                if let Some(e) = error { o.set("error", J::s(e.clone())); }
                if let Some(p) = panicked { o.set("panicked", J::s(p.clone())); }
                o.set("status", status.as_ref().map(|s| J::s(waited_name(s))).unwrap_or(J::Null));
                o.set("acked_at", acked_at.map(|a| J::Int(a as i128)).unwrap_or(J::Null));
            }
            Outcome::Shutdown => { o.set("op", J::s("shutdown")); }
        }
        o
    }
}

pub struct Pending {
    pub index: usize,
    pub ack: Arc<CommandAcknowledgement>,
    pub uid: u64,
}

/// A client thread's private log.
pub struct Client {
    pub id: u64,
    pub log: Vec<OpRec>,
    pub pending: Vec<Pending>,
    pub counter: u64,
    pub clock: Option<rt::VClock>,
    /// every n-th queued write is polled once, right after the call, with a throw-away waker of another "task" (0 = never):
    /// the later await then presents a different waker, which must be the one that is woken
    pub pre_poll_every: u64,
    pub pre_polls: u64,
    writes_issued: u64,
}

impl Client {
    pub fn new(id: u64) -> Client { Client { id, log: Vec::new(), pending: Vec::new(), counter: 0, clock: None, pre_poll_every: 0, pre_polls: 0, writes_issued: 0 } }

    pub fn with_clock(id: u64, clock: rt::VClock) -> Client { Client { id, log: Vec::new(), pending: Vec::new(), counter: 0, clock: Some(clock), pre_poll_every: 0, pre_polls: 0, writes_issued: 0 } }

    fn clk(&self) -> u64 { self.clock.as_ref().map(|c| c.ns()).unwrap_or(0) }

    pub fn token(&mut self, key: u64) -> u64 { self.counter += 1; token(key, self.id, self.counter) }

    pub fn read(&mut self, cache: &Cache, key: u64, variant: usize) -> Option<u64> {
        let clk_call = self.clk();
        let call = rt::stamp();
        let got = read(cache, variant, key);
        let ret = rt::stamp();
        let clk_done = self.clk();
        self.log.push(OpRec { thread: self.id, call, ret, clk_call, clk_done, outcome: Outcome::Read { key, variant, got } });
        got
    }

    /// Issues a write; the acknowledgement is kept pending until `settle` / `settle_all`.
    pub fn write(&mut self, cache: &Cache, op: WriteOp) -> usize {
        let clk_call = self.clk();
        let call = rt::stamp();
        let issued = issue(cache, &op);
        let ret = rt::stamp();
        let index = self.log.len();
        match issued {
            Issued::Ack(ack, uid) => {
                self.writes_issued += 1;
                if self.pre_poll_every != 0 && uid != 0 && self.writes_issued % self.pre_poll_every == 0 {
                    let other_task = rt::CountingWaker::new();
                    let _ = rt::poll_once(ack.handle(), &other_task);
                    self.pre_polls += 1;
                }
                self.log.push(OpRec { thread: self.id, call, ret, clk_call, clk_done: 0, outcome: Outcome::Write { op, uid, error: None, panicked: None, status: None, acked_at: None } });
                self.pending.push(Pending { index, ack, uid });
            }
            Issued::SendError(error) => {
                self.log.push(OpRec { thread: self.id, call, ret, clk_call, clk_done: 0, outcome: Outcome::Write { op, uid: 0, error: Some(error), panicked: None, status: None, acked_at: None } });
            }
            Issued::Panicked(message) => {
                self.log.push(OpRec { thread: self.id, call, ret, clk_call, clk_done: 0, outcome: Outcome::Write { op, uid: 0, error: None, panicked: Some(message), status: None, acked_at: None } });
            }
        }
        index
    }

    /// Awaits every pending acknowledgement in submission order (with a real waker).
    pub fn settle_all(&mut self, marks: &rt::ThreadMarks) {
        let pending = std::mem::take(&mut self.pending);
        for p in pending {
            let waited = rt::await_ack(p.ack.handle(), p.uid, marks);
            let at = rt::stamp();
            if p.uid != 0 { recorder().forget_acked(p.uid); }
            let clk_done = self.clk();
            if let Outcome::Write { status, acked_at, .. } = &mut self.log[p.index].outcome {
                *status = Some(waited);
                *acked_at = Some(at);
            }
            self.log[p.index].clk_done = clk_done;
        }
    }
}

// ------------------------------------------------------------------------------------------------ offline checkers

struct W<'a> { rec: &'a OpRec, op: &'a WriteOp, status: Option<&'a Waited>, acked_at: Option<u64> }

fn accepted(status: Option<&Waited>) -> bool { matches!(status, Some(Waited::Ready(CommandStatus::Accepted))) }
fn rejected(status: Option<&Waited>) -> bool { matches!(status, Some(Waited::Ready(CommandStatus::Rejected(_))) | Some(Waited::Ready(CommandStatus::ShuttingDown))) }

/// Per-key read rules (C02, C04a). Unique tokens make this a direct look-up instead of a search.
pub fn check_reads(logs: &[OpRec], counts: &mut Counts, findings: &mut Vec<Finding>, witness: &dyn Fn(&[&OpRec]) -> J) {
    let mut writes_by_key: HashMap<u64, Vec<W>> = HashMap::new();
    let mut by_token: HashMap<u64, usize> = HashMap::new();
    for rec in logs {
        if let Outcome::Write { op, status, acked_at, .. } = &rec.outcome {
            writes_by_key.entry(op.key()).or_default().push(W { rec, op, status: status.as_ref(), acked_at: *acked_at });
        }
    }
    for (_key, writes) in writes_by_key.iter() {
        for (i, w) in writes.iter().enumerate() { if let Some(value) = w.op.value() { by_token.insert(value, i); } }
    }
    for rec in logs {
        let (key, variant, got) = match &rec.outcome { Outcome::Read { key, variant, got } => (*key, *variant, *got), _ => continue };
        counts.inc(format!("reads_checked:{}", READ_VARIANTS[variant % 7]));
        let empty = Vec::new();
        let writes = writes_by_key.get(&key).unwrap_or(&empty);
        let overlapping = writes.iter().any(|w| w.rec.call < rec.ret && w.acked_at.map(|a| a > rec.call).unwrap_or(true));
        if overlapping { counts.inc("reads_overlapping_a_write_of_the_same_key"); }
        let value = match got { Some(value) => value, None => { counts.inc("reads_absent"); continue } };
        counts.inc("reads_returned_value");
        let name = READ_VARIANTS[variant % 7];
        if token_key(value) != key {
            findings.push(Finding { props: vec!["C02"], signature: format!("C02/foreign-value/{}", name),
                detail: format!("{} of key {} returned {:#x}, a value written to key {}", name, key, value, token_key(value)), witness: witness(&[rec]), inconclusive: false });
            continue;
        }
        let source = match by_token.get(&value).map(|i| &writes[*i]) {
            Some(w) if w.op.key() == key => w,
            _ => {
                findings.push(Finding { props: vec!["C02"], signature: format!("C02/value-nobody-wrote/{}", name),
                    detail: format!("{} of key {} returned {:#x} which no client wrote", name, key, value), witness: witness(&[rec]), inconclusive: false });
                continue;
            }
        };
        if source.rec.call > rec.ret {
            findings.push(Finding { props: vec!["C02"], signature: format!("C02/value-from-the-future/{}", name),
                detail: format!("{} of key {} returned {:#x} whose write began (stamp {}) after the read ended (stamp {})", name, key, value, source.rec.call, rec.ret),
                witness: witness(&[source.rec, rec]), inconclusive: false });
            continue;
        }
        if source.op.is_put() && rejected(source.status) {
            findings.push(Finding { props: vec!["C02", "C07"], signature: format!("C02/value-of-a-rejected-put/{}", name),
                detail: format!("{} of key {} returned {:#x} although its put was answered {}", name, key, value, source.status.map(waited_name).unwrap_or_default()),
                witness: witness(&[source.rec, rec]), inconclusive: false });
            continue;
        }
        // superseded: another write/delete began after the source was acknowledged and was complete before the read began
        if let Some(source_acked) = source.acked_at {
            for other in writes.iter() {
                if std::ptr::eq(other.rec, source.rec) { continue; }
                if other.rec.call <= source_acked { continue; }
                let complete_at = match other.op {
                    WriteOp::Delete { .. } => Some(other.rec.ret),
                    _ if other.op.value().is_some() && accepted(other.status) => other.acked_at,
                    _ => None,
                };
                if let Some(complete_at) = complete_at {
                    if complete_at < rec.call {
                        let deleted = matches!(other.op, WriteOp::Delete { .. });
                        let props: Vec<&'static str> = if deleted { vec!["C04", "C02"] } else { vec!["C02", "C08"] };
                        let what = if deleted { "deleted-value" } else { "superseded-value" };
                        findings.push(Finding { props, signature: format!("C02/{}/{}", what, name),
                            detail: format!("{} of key {} (stamps {}..{}) returned {:#x}, acknowledged at {}, although {} (stamps {}..{}, complete at {}) came after it and before the read",
                                name, key, rec.call, rec.ret, value, source_acked, other.op.shape(), other.rec.call, other.rec.ret, complete_at),
                            witness: witness(&[source.rec, other.rec, rec]), inconclusive: false });
                        break;
                    }
                }
            }
        }
    }
}

/// Expiry under concurrency (C09): a value whose write carried a time-to-live is never returned by a read that began
/// after the latest instant that write can have expired (harness clock when its acknowledgement was observed + ttl).
pub fn check_expiry(logs: &[OpRec], counts: &mut Counts, findings: &mut Vec<Finding>, witness: &dyn Fn(&[&OpRec]) -> J) {
    let mut by_token: HashMap<u64, &OpRec> = HashMap::new();
    for rec in logs { if let Outcome::Write { op, .. } = &rec.outcome { if let Some(value) = op.value() { by_token.insert(value, rec); } } }
    for rec in logs {
        let (key, variant, value) = match &rec.outcome { Outcome::Read { key, variant, got: Some(value) } => (*key, *variant, *value), _ => continue };
        let source = match by_token.get(&value) { Some(w) => *w, None => continue };
        if let Outcome::Write { op, .. } = &source.outcome {
            let ttl = match op { WriteOp::Upsert { remove_ttl: true, .. } => None, other => other.ttl() };
            let moved = logs.iter().any(|u| matches!(&u.outcome, Outcome::Write { op: WriteOp::Upsert { key: k, value: None, ttl: t, remove_ttl: r, .. }, .. } if *k == key && (t.is_some() || *r)) && u.call < rec.ret
                && match &u.outcome { Outcome::Write { acked_at, .. } => acked_at.map(|a| a > source.call).unwrap_or(true), _ => false });
            if moved { counts.inc("reads_whose_deadline_may_have_been_moved_by_a_valueless_upsert"); continue; }
            if let (Some(ttl), true, true) = (ttl, source.clk_done != 0, rec.clk_call != 0) {
                counts.inc("reads_of_values_with_a_known_deadline");
                let latest_expiry = source.clk_done as u128 + ttl.as_nanos();
                if (rec.clk_call as u128) > latest_expiry {
                    findings.push(Finding { props: vec!["C09", "C02"], signature: format!("C09/expired-value-served/concurrent/{}", READ_VARIANTS[variant % 7]),
                        detail: format!("{} of key {} began at clock {} and returned {:#x}, written with a time-to-live of {} ns by a call acknowledged at clock {} (it expired at {} at the latest)",
                            READ_VARIANTS[variant % 7], key, rec.clk_call, value, ttl.as_nanos(), source.clk_done, latest_expiry), witness: witness(&[source, rec]), inconclusive: false });
                } else { counts.inc("reads_before_the_latest_possible_deadline"); }
            }
        }
    }
}

/// No spurious loss under concurrency (C03): without memory pressure, if the last write of a key began after every other
/// write of that key had been acknowledged, the final state is decided by it alone.
pub fn check_final_values(sut: &Sut, logs: &[OpRec], counts: &mut Counts, findings: &mut Vec<Finding>, witness: &dyn Fn(&[&OpRec]) -> J) {
    let mut by_key: BTreeMap<u64, Vec<&OpRec>> = BTreeMap::new();
    for rec in logs { if let Outcome::Write { op, .. } = &rec.outcome { by_key.entry(op.key()).or_default().push(rec); } }
    for (key, writes) in by_key {
        let last = match writes.iter().max_by_key(|w| w.call) { Some(w) => *w, None => continue };
        let settled = writes.iter().all(|w| std::ptr::eq(*w, last) || matches!(&w.outcome, Outcome::Write { acked_at: Some(at), .. } if *at < last.call));
        if !settled { counts.inc("keys_whose_last_write_overlapped_another"); continue; }
        if let Outcome::Write { op, status, .. } = &last.outcome {
            let accepted = matches!(status, Some(Waited::Ready(CommandStatus::Accepted)));
            let expected: Option<Option<u64>> = match op {
                WriteOp::Delete { .. } => Some(None),
                WriteOp::Put { value, .. } | WriteOp::PutW { value, .. } if accepted => Some(Some(*value)),
                // upserts are not judged here: applied in place they may hit an entry that is past its time-to-live while the sweeper
                // is evicting it (the recorded finding about upserts of expired, unswept keys), which the client log cannot tell apart
                _ => None,
            };
            if let Some(expected) = expected {
                counts.inc("final_values_checked");
                let got = sut.cache.get(&key);
                if got != expected {
                    let what = if expected.is_some() { "accepted-write-lost" } else { "deleted-key-still-readable" };
                    let props: Vec<&'static str> = if expected.is_some() { vec!["C03", "C08"] } else { vec!["C04"] };
                    findings.push(Finding { props, signature: format!("C03/{}/concurrent/{}", what, op.shape()),
                        detail: format!("key {}: the last write ({}, began after every other write of the key was acknowledged, no memory pressure, no time-to-live) leaves {:?} but the key reads {:?}", key, op.shape(), expected, got),
                        witness: witness(&[last]), inconclusive: false });
                }
            }
        }
    }
}

/// Outcomes of writes to a key that was *definitely present* for the whole call (C07a / C08 under concurrency; only for runs
/// without memory pressure and without time-to-live, where nothing but a delete removes a key): some value-bearing write W of
/// the key was acknowledged Accepted before the call began, and no delete of the key could have taken effect after W and before
/// the call's acknowledgement. Then a put must be answered KeyAlreadyExists and an upsert must be Accepted.
pub fn check_definitely_present(logs: &[OpRec], counts: &mut Counts, findings: &mut Vec<Finding>, witness: &dyn Fn(&[&OpRec]) -> J) {
    let mut by_key: BTreeMap<u64, Vec<&OpRec>> = BTreeMap::new();
    for rec in logs { if let Outcome::Write { op, .. } = &rec.outcome { by_key.entry(op.key()).or_default().push(rec); } }
    for (key, writes) in by_key {
        for target in writes.iter() {
            let (op, status, acked_at) = match &target.outcome { Outcome::Write { op, status: Some(Waited::Ready(s)), acked_at: Some(a), .. } => (op, *s, *a), _ => continue };
            if matches!(op, WriteOp::Delete { .. }) { continue; }
            // a supporting write: accepted, value-bearing, acknowledged before the target began
            let support = writes.iter().filter(|w| !std::ptr::eq(**w, *target)).filter_map(|w| match &w.outcome {
                Outcome::Write { op: wop, status: Some(Waited::Ready(CommandStatus::Accepted)), acked_at: Some(a), .. } if wop.value().is_some() && *a < target.call => Some((*w, *a)),
                _ => None,
            }).max_by_key(|(_, a)| *a);
            let (support, _) = match support { Some(s) => s, None => continue };
            // any delete that may have run after the supporting write was stored and before the target was acknowledged?
            let threatened = writes.iter().any(|d| match &d.outcome {
                Outcome::Write { op: WriteOp::Delete { .. }, acked_at: d_acked, .. } => d.call < acked_at && d_acked.map(|a| a > support.call).unwrap_or(true),
                _ => false,
            });
            if threatened { continue; }
            counts.inc("writes_to_a_definitely_present_key_judged");
            if op.is_put() && status != CommandStatus::Rejected(RejectionReason::KeyAlreadyExists) {
                findings.push(Finding { props: vec!["C07", "C05"], signature: format!("C07/put-on-readable-key-not-rejected/concurrent/{}", status_name(&status)),
                    detail: format!("{} of key {} resolved to {} although {} had been acknowledged Accepted before it began and no delete of the key could have intervened", op.name(), key, status_name(&status), support_shape(support)),
                    witness: witness(&[support, *target]), inconclusive: false });
            }
            if matches!(op, WriteOp::Upsert { .. }) && status != CommandStatus::Accepted {
                findings.push(Finding { props: vec!["C08"], signature: format!("C08/upsert-of-readable-key-not-accepted/concurrent/{}", status_name(&status)),
                    detail: format!("{} of key {} resolved to {} although the key was present for the whole call ({} acknowledged Accepted before, no delete could have intervened)", op.shape(), key, status_name(&status), support_shape(support)),
                    witness: witness(&[support, *target]), inconclusive: false });
            }
        }
    }
}

/// Two puts of one key that were both acknowledged Accepted although no delete of the key can have run between their
/// executions (C07a under concurrency; same gating: no memory pressure, no time-to-live).
pub fn check_double_accepted_puts(logs: &[OpRec], counts: &mut Counts, findings: &mut Vec<Finding>, witness: &dyn Fn(&[&OpRec]) -> J) {
    let mut by_key: BTreeMap<u64, Vec<&OpRec>> = BTreeMap::new();
    for rec in logs { if let Outcome::Write { op, .. } = &rec.outcome { by_key.entry(op.key()).or_default().push(rec); } }
    for (key, writes) in by_key {
        let mut puts: Vec<(&OpRec, u64)> = writes.iter().filter_map(|w| match &w.outcome {
            Outcome::Write { op, status: Some(Waited::Ready(CommandStatus::Accepted)), acked_at: Some(a), .. } if op.is_put() => Some((*w, *a)), _ => None }).collect();
        puts.sort_by_key(|(w, _)| w.call);
        for pair in puts.windows(2) {
            let ((first, first_acked), (second, second_acked)) = (pair[0], pair[1]);
            // the two may have been executed in either order (a call that began first can be queued last): a delete is "between"
            // them if it can have run anywhere from the earlier call to the later acknowledgement
            let (from, until) = (first.call.min(second.call), first_acked.max(second_acked));
            let delete_between = writes.iter().any(|d| match &d.outcome {
                Outcome::Write { op: WriteOp::Delete { .. }, acked_at, .. } => d.call < until && acked_at.map(|a| a > from).unwrap_or(true),
                _ => false,
            });
            counts.inc("pairs_of_accepted_puts_judged");
            if !delete_between {
                findings.push(Finding { props: vec!["C07", "C05"], signature: "C07/two-puts-of-one-key-both-accepted-without-a-delete-between/concurrent".into(),
                    detail: format!("two puts of key {} (stamps {}.. and {}..) were both acknowledged Accepted and no delete of the key was in flight between them: the second overwrote the first", key, first.call, second.call),
                    witness: { let mut near: Vec<&OpRec> = writes.iter().filter(|w| w.call + 400 > from && w.call < until + 400).copied().collect(); near.sort_by_key(|w| w.call); witness(&near) }, inconclusive: false });
            }
        }
    }
}

fn support_shape(rec: &OpRec) -> String { match &rec.outcome { Outcome::Write { op, .. } => op.shape(), _ => "?".into() } }

/// Classifies abnormal acknowledgement outcomes found in client logs (C12 / C17 / C18).
pub fn check_ack_outcomes(logs: &[OpRec], during_shutdown: bool, counts: &mut Counts, findings: &mut Vec<Finding>, witness: &dyn Fn(&[&OpRec]) -> J, panic_mark: usize) {
    for rec in logs {
        if let Outcome::Write { op, status, error, panicked, .. } = &rec.outcome {
            if let (Some(message), WriteOp::Upsert { value: None, .. }) = (panicked, op) {
                if message.contains("value must be specified") { counts.inc("valueless_upserts_that_met_an_absent_key"); continue; }
            }
            if let Some(message) = panicked {
                let site = rt::panics_since(panic_mark).iter().rev().find(|p| p.message == *message).map(rt::panic_site).unwrap_or_else(|| rt::classify_panic(message).to_string());
                findings.push(Finding { props: vec!["C17"], signature: format!("C17/panic-in-caller/{}/concurrent/{}", op.shape(), site),
                    detail: format!("{} panicked in the calling thread: {}", op.shape(), message), witness: witness(&[rec]), inconclusive: false });
            }
            if error.is_some() && !during_shutdown {
                findings.push(Finding { props: vec!["C13", "C17"], signature: format!("C13/send-error-while-running/{}", op.shape()),
                    detail: format!("{} returned an error while the cache was running: {}", op.shape(), error.clone().unwrap()), witness: witness(&[rec]), inconclusive: false });
            }
            match status {
                Some(Waited::Ready(s)) => counts.inc(format!("acks:{}", status_name(s))),
                Some(Waited::ReadyPending) => findings.push(Finding { props: if during_shutdown { vec!["C12", "C13"] } else { vec!["C12"] }, signature: "C12/ready-pending".into(),
                    detail: format!("awaiting {} yielded the placeholder status Pending", op.shape()), witness: witness(&[rec]), inconclusive: false }),
                Some(Waited::LostWakeup) => findings.push(Finding { props: if during_shutdown { vec!["C12", "C13"] } else { vec!["C12"] }, signature: "C12/lost-wakeup".into(),
                    detail: format!("{} was acknowledged but the task that polled it was never woken", op.shape()), witness: witness(&[rec]), inconclusive: false }),
                Some(Waited::WorkerDead) => {
                    let site = rt::panics_since(panic_mark).last().map(rt::panic_site).unwrap_or_else(|| "no-panic".into());
                    findings.push(Finding { props: vec!["C17", "C12", "C13"], signature: format!("C17/worker-dead/{}/cmd={}/concurrent", site, rt::last_command_kind()),
                        detail: format!("the command worker terminated; the acknowledgement of {} never completes", op.shape()), witness: witness(&[rec]), inconclusive: false })
                }
                Some(Waited::Deadlock(d)) => findings.push(Finding { props: vec!["C18", "C12", "C13"], signature: format!("C18/deadlock/await/{}", op.shape()),
                    detail: format!("every thread is blocked while awaiting {}: {}", op.shape(), d), witness: witness(&[rec]), inconclusive: false }),
                Some(Waited::Inconclusive(reason)) => findings.push(Finding { props: vec!["C18"], signature: "inconclusive/await".into(), detail: reason.clone(), witness: J::Null, inconclusive: true }),
                None => {}
            }
        }
    }
}

/// Quiescent accounting (C05): total = sum of charged weights, charged ids = stored ids.
pub fn check_quiescent_accounting(sut: &Sut, context: &str, counts: &mut Counts, findings: &mut Vec<Finding>, witness: J) -> bool {
    let snapshot = sut.snapshot();
    counts.inc("quiescent_points_checked");
    counts.add("ids_charged_at_quiescence", snapshot.charged.len() as u64);
    counts.add("keys_held_at_quiescence", snapshot.stored.len() as u64);
    let sum: i64 = snapshot.charged.iter().map(|e| e.3).sum();
    let mut ok = true;
    let mut fail = |signature: &str, detail: String| {
        // in the sweeper-race scenarios keys leave through the sweeper: weight that stays behind there was "not released" by a sweep (C10)
        let props: Vec<&'static str> = if context.starts_with("update-sweep") || context.starts_with("sweep-") { vec!["C05", "C10"] } else { vec!["C05"] };
        findings.push(Finding { props, signature: signature.to_string(), detail, witness: witness.clone(), inconclusive: false });
    };
    if sum != snapshot.weight_used {
        fail(&format!("C05/total-differs-from-sum-of-charged/{}", context), format!("total weight used {} but the charged weights sum to {} ({})", snapshot.weight_used, sum, context));
        ok = false;
    }
    if sut.cache.total_weight_used() != snapshot.weight_used {
        fail(&format!("C05/api-total-differs/{}", context), format!("total_weight_used() {} != snapshot {}", sut.cache.total_weight_used(), snapshot.weight_used));
        ok = false;
    }
    let stored_ids: HashMap<u64, u64> = snapshot.stored.iter().map(|(k, id, _, _)| (*id, *k)).collect();
    for (id, key, _, weight) in &snapshot.charged {
        match stored_ids.get(id) {
            Some(k) if k == key => {}
            Some(k) => { fail(&format!("C05/charged-under-other-key/{}", context), format!("id {} is charged for key {} but stored for key {}", id, key, k)); ok = false; }
            None => { fail(&format!("C05/weight-charged-for-gone-key/{}", context), format!("id {} (key {}, weight {}) is charged but no entry with that id is held ({})", id, key, weight, context)); ok = false; }
        }
    }
    let charged_ids: BTreeSet<u64> = snapshot.charged.iter().map(|e| e.0).collect();
    for (key, id, _, soft) in &snapshot.stored {
        if !charged_ids.contains(id) { fail(&format!("C05/held-key-not-charged/{}", context), format!("key {} (id {}) is held but not charged ({})", key, id, context)); ok = false; }
        if *soft { fail(&format!("C05/soft-deleted-entry-at-quiescence/{}", context), format!("key {} is still marked deleted at quiescence ({})", key, context)); ok = false; }
    }
    ok
}

/// Statistics identities at a quiescent point of a concurrent history (C16): counters are bumped from many threads at once.
pub fn check_quiescent_stats(sut: &Sut, logs: &[OpRec], counts: &mut Counts, findings: &mut Vec<Finding>, case: &J) {
    let summary = sut.cache.stats_summary();
    let get = |t: StatsType| summary.get(&t).unwrap_or(0);
    let lookups = logs.iter().filter(|r| matches!(r.outcome, Outcome::Read { .. })).count() as u64;
    let hits_seen = logs.iter().filter(|r| matches!(r.outcome, Outcome::Read { got: Some(_), .. })).count() as u64;
    let refused = logs.iter().filter(|r| matches!(&r.outcome, Outcome::Write { status: Some(Waited::Ready(CommandStatus::Rejected(
        RejectionReason::EnoughSpaceIsNotAvailableAndKeyFailedToEvictOthers | RejectionReason::KeyWeightIsGreaterThanCacheWeight))), .. })).count() as u64;
    let snapshot = sut.snapshot();
    let mut fail = |signature: &str, detail: String| findings.push(Finding { props: vec!["C16"], signature: format!("C16/{}/concurrent", signature), detail, witness: case.clone(), inconclusive: false });
    let (hits, misses) = (get(StatsType::CacheHits), get(StatsType::CacheMisses));
    if hits + misses != lookups { fail("hits-plus-misses-differs-from-lookups", format!("hits {} + misses {} != {} lookups issued by the clients", hits, misses, lookups)); }
    if hits != hits_seen { fail("hits-differ-from-successful-reads", format!("CacheHits {} but {} reads returned a value", hits, hits_seen)); }
    if get(StatsType::KeysAdded).wrapping_sub(get(StatsType::KeysDeleted)) != snapshot.stored.len() as u64 {
        fail("keys-added-minus-deleted-differs-from-held", format!("KeysAdded {} - KeysDeleted {} != {} keys held", get(StatsType::KeysAdded), get(StatsType::KeysDeleted), snapshot.stored.len()));
    }
    if get(StatsType::WeightAdded).wrapping_sub(get(StatsType::WeightRemoved)) != snapshot.weight_used as u64 {
        fail("weight-added-minus-removed-differs-from-used", format!("WeightAdded {} - WeightRemoved {} != weight used {}", get(StatsType::WeightAdded), get(StatsType::WeightRemoved), snapshot.weight_used));
    }
    if get(StatsType::KeysRejected) != refused { fail("keys-rejected-differs", format!("KeysRejected {} != {} puts refused by admission", get(StatsType::KeysRejected), refused)); }
    let expected_ratio = if lookups == 0 { 0.0 } else { hits as f64 / (hits + misses).max(1) as f64 };
    if (summary.hit_ratio - expected_ratio).abs() > 1e-12 { fail("hit-ratio-wrong", format!("hit ratio {} but hits {} / lookups {}", summary.hit_ratio, hits, hits + misses)); }
    counts.inc("concurrent_stats_checks");
    counts.add("concurrent_lookups_counted", lookups);
}

/// Capacity probe (C03 / C06): at a quiescent point of a small cache, a put that exactly fills the cache according to the
/// weights really held must be accepted without evicting anything. Weight that is wrongly kept charged shows up here as
/// spurious rejection or loss.
pub fn capacity_probe(sut: &Sut, context: &str, counts: &mut Counts, findings: &mut Vec<Finding>, witness: J) {
    let snapshot = sut.snapshot();
    if snapshot.max_weight > 10_000 { return; }
    let held: i64 = snapshot.stored.iter().filter_map(|(_, id, _, _)| snapshot.charged.iter().find(|c| c.0 == *id).map(|c| c.3)).sum();
    let room = snapshot.max_weight - held;
    if room <= 0 { return; }
    let before: BTreeSet<u64> = snapshot.stored.iter().map(|e| e.0).collect();
    let mut probe = Client::new(97);
    let value = probe.token(9_999);
    probe.write(&sut.cache, WriteOp::PutW { key: 9_999, value, weight: room });
    probe.settle_all(&sut.marks);
    counts.inc("capacity_probes");
    let status = match &probe.log.last().unwrap().outcome { Outcome::Write { status: Some(Waited::Ready(s)), .. } => Some(*s), _ => None };
    let after: BTreeSet<u64> = sut.snapshot().stored.iter().map(|e| e.0).collect();
    let lost: Vec<u64> = before.difference(&after).copied().collect();
    if status != Some(CommandStatus::Accepted) || !lost.is_empty() {
        findings.push(Finding { props: vec!["C03", "C06", "C05"], signature: format!("C03/capacity-lost/{}", context),
            detail: format!("the keys held weigh {} of {}; a put of weight {} (an exact fit) was answered {:?} and evicted {:?}: capacity is silently lost", held, snapshot.max_weight, room, status.map(|s| status_name(&s)), lost),
            witness, inconclusive: false });
    }
    // leave the cache as it was
    probe.write(&sut.cache, WriteOp::Delete { key: 9_999 });
    probe.settle_all(&sut.marks);
}

// ------------------------------------------------------------------------------------------------ scenario plumbing

pub struct CaseOut {
    pub findings: Vec<Finding>,
    pub counts: Counts,
    pub signature: u64,
    pub nontrivial: bool,
    pub sample: J,
}

fn prep(perturb_seed: u64, p_yield: u64, p_spin: u64, p_sleep: u64, keep_events: bool) {
    let r = recorder();
    r.keep.store(keep_events, Ordering::SeqCst);
    r.track_acked.store(true, Ordering::SeqCst);
    r.check_weight_bounds.store(true, Ordering::SeqCst);
    let _ = r.take_events();
    let _ = r.take_weight_violations();
    r.clear_acked();
    r.weight_min.store(0, Ordering::SeqCst);
    r.weight_max_seen.store(0, Ordering::SeqCst);
    sched().release_all();
    rt::clear_abort();
    sched().set_random(perturb_seed, p_yield, p_spin, p_sleep);
    sched().quiet_mask.store(0, Ordering::SeqCst);
}

fn witness_of(case: &J, recs: &[&OpRec]) -> J {
    case.clone().with("operations", J::Arr(recs.iter().map(|r| r.to_json()).collect()))
}

fn weight_bound_findings(findings: &mut Vec<Finding>, case: &J, context: &str) {
    for (site, key_id, total, max) in recorder().take_weight_violations() {
        findings.push(Finding { props: vec!["C01"], signature: format!("C01/total-outside-bounds/site={}/{}", site, context),
            detail: format!("total weight became {} (limit {}) at {} of key id {}", total, max, site, key_id), witness: case.clone(), inconclusive: false });
    }
}

/// Spins on the public `total_weight_used()` and checks the range at the API boundary (C01 b).
fn observer(cache: Arc<Cache>, max: i64, stop: Arc<AtomicBool>, samples: Arc<AtomicU64>, bad: Arc<Mutex<Vec<i64>>>, lo: Arc<AtomicI64>, hi: Arc<AtomicI64>) {
    rt::register_helper_thread();
    while !stop.load(Ordering::Relaxed) {
        let total = cache.total_weight_used();
        samples.fetch_add(1, Ordering::Relaxed);
        lo.fetch_min(total, Ordering::Relaxed);
        hi.fetch_max(total, Ordering::Relaxed);
        if total < 0 || total > max {
            let mut bad = bad.lock().unwrap();
            if bad.len() < 8 { bad.push(total); }
        }
        std::hint::spin_loop();
    }
}

// ------------------------------------------------------------------------------------------------ scenario: mixed

#[derive(Clone, Debug)]
struct MixedCfg {
    threads: usize,
    keys: u64,
    ops: usize,
    pressure: bool,
    ttl: bool,
    clean_weights: bool,
    with_shutdown: bool,
    sut: SutCfg,
    perturb: (u64, u64, u64),
    forced: Option<(Site, u64)>,
    /// some upserts carry no value (every second case)
    valueless: bool,
    /// every fourth case: 1-2 keys, at least 8 threads, dominated by value-less upserts, deletes and puts (maximal contention on one entry)
    churn: bool,
}

fn mixed_cfg(focus: &str, seed: u64, index: u64, clean: bool) -> MixedCfg {
    let mut rng = rt::rng_for(seed, index, 0xC0C);
    let threads = *rng.pick(&[2usize, 3, 4, 6, 8, 12, 16]);
    let keys = rng.range(1, 8);
    let pressure = match focus { "C03" => false, _ => rng.chance(1, 2) };
    let weight_mode = if rng.chance(1, 2) { WeightMode::Default } else { WeightMode::Custom };
    let clean_weights = clean || !matches!(focus, "C01" | "C05") || rng.chance(1, 2);
    let max_weight = if pressure {
        if clean_weights { rng.range(60, 300) as i64 } else { match weight_mode { WeightMode::Default => rng.range(120, 500) as i64, WeightMode::Custom => rng.range(30, 150) as i64 } }
    } else { 1_000_000 };
    let sut = SutCfg {
        counters: *rng.pick(&[1u64, 2, 10, 100, 1000]),
        capacity: *rng.pick(&[1usize, 16, 64]),
        max_weight,
        shards: *rng.pick(&[2usize, 2, 2, 4, 16]),
        cmd_buf: *rng.pick(&[1usize, 2, 8, 1024]),
        pool: *rng.pick(&[1usize, 2, 8]),
        buf: *rng.pick(&[1usize, 2, 16]),
        tick: Duration::from_millis(1),
        weight_mode,
        hash_mode: if rng.chance(1, 4) { HashMode::Constant } else { HashMode::Default },
        start_ns: rt::START_NS,
    };
    let perturb = *rng.pick(&[(0u64, 0u64, 0u64), (30, 10, 2), (100, 30, 5), (10, 60, 10), (200, 0, 0)]);
    let forced = if rng.chance(1, 3) { Some((*rng.pick(&STRETCH_SITES), rng.range(1500, 5000))) } else { None };
    let churn = if focus == "C07" { index % 2 == 0 } else { index % 4 == 0 };
    let (threads, keys) = if churn { (threads.max(8), rng.range(1, 2)) } else { (threads, keys) };
    // churn cases have no memory pressure and no time-to-live: nothing but a delete removes a key, so every put / upsert outcome can be judged
    let mut sut = sut;
    let (pressure, ttl_on) = if churn { sut.max_weight = 1_000_000; (false, false) } else { (pressure, rng.chance(1, 2)) };
    return MixedCfg { threads, keys, ops: rng.range(40, 250) as usize, pressure, ttl: ttl_on, clean_weights, with_shutdown: false, sut, perturb, forced, valueless: index % 2 == 0, churn };
}

fn key_weight(key: u64) -> i64 { 25 + (key * 7 % 20) as i64 }

fn gen_write(rng: &mut Rng, client: &mut Client, cfg: &MixedCfg, key: u64) -> WriteOp {
    // now and then an upsert that carries no value (time-to-live only / weight only / remove time-to-live): legal only while the
    // key exists; if it has just vanished the documented assertion ("value must be specified") fires in the caller, which is
    // not held against the cache
    if cfg.valueless && rng.chance(1, 10) {
        let weight = if cfg.clean_weights { key_weight(key) } else { rng.range(25, 60) as i64 };
        return match rng.below(3) {
            0 if cfg.ttl => WriteOp::Upsert { key, value: None, weight: Some(weight), ttl: Some(Duration::from_nanos(*rng.pick(&[NS, 2 * NS, 5 * NS, 3600 * NS]))), remove_ttl: false },
            1 if cfg.ttl => WriteOp::Upsert { key, value: None, weight: Some(weight), ttl: None, remove_ttl: true },
            _ => WriteOp::Upsert { key, value: None, weight: Some(weight), ttl: None, remove_ttl: false },
        };
    }
    let value = client.token(key);
    let ttl = || Duration::from_nanos(*[0u64, 1, NS / 2, NS, 2 * NS, 5 * NS, 3600 * NS].get((value % 7) as usize).unwrap());
    if cfg.clean_weights {
        // every write of key k carries the same explicit weight: no update can increase a charged weight
        let weight = key_weight(key);
        return match rng.below(10) {
            0..=2 => WriteOp::PutW { key, value, weight },
            3 if cfg.ttl => WriteOp::PutWTtl { key, value, weight, ttl: ttl() },
            3 => WriteOp::PutW { key, value, weight },
            4..=5 => WriteOp::Upsert { key, value: Some(value), weight: Some(weight), ttl: None, remove_ttl: false },
            6 if cfg.ttl => WriteOp::Upsert { key, value: Some(value), weight: Some(weight), ttl: Some(ttl()), remove_ttl: false },
            6 => WriteOp::Upsert { key, value: Some(value), weight: Some(weight), ttl: None, remove_ttl: false },
            7 if cfg.ttl => WriteOp::Upsert { key, value: Some(value), weight: Some(weight), ttl: None, remove_ttl: true },
            _ => WriteOp::Delete { key },
        };
    }
    let weight = rng.range(1, (cfg.sut.max_weight.min(400) as u64).max(2)) as i64;
    match rng.below(12) {
        0 => WriteOp::Put { key, value },
        1..=2 => WriteOp::PutW { key, value, weight },
        3 if cfg.ttl => WriteOp::PutTtl { key, value, ttl: ttl() },
        4 if cfg.ttl => WriteOp::PutWTtl { key, value, weight, ttl: ttl() },
        3 | 4 => WriteOp::Put { key, value },
        5 => WriteOp::Upsert { key, value: Some(value), weight: None, ttl: None, remove_ttl: false },
        6 => WriteOp::Upsert { key, value: Some(value), weight: Some(weight), ttl: None, remove_ttl: false },
        7 if cfg.ttl => WriteOp::Upsert { key, value: Some(value), weight: None, ttl: Some(ttl()), remove_ttl: false },
        8 if cfg.ttl => WriteOp::Upsert { key, value: Some(value), weight: Some(weight.max(30)), ttl: None, remove_ttl: true },
        7 | 8 => WriteOp::Upsert { key, value: Some(value), weight: Some(weight), ttl: None, remove_ttl: false },
        _ => WriteOp::Delete { key },
    }
}

static REENTRANT_AWAITS: AtomicU64 = AtomicU64::new(0);

fn run_mixed(focus: &'static str, seed: u64, index: u64, clean: bool) -> CaseOut {
    let cfg = mixed_cfg(focus, seed, index, clean);
    let mut counts = Counts::default();
    let mut findings = Vec::new();
    let case = J::obj().with("engine", J::s("conc")).with("scenario", J::s("mixed")).with("focus", J::s(focus)).with("seed", J::Int(seed as i128))
        .with("index", J::Int(index as i128)).with("threads", J::u(cfg.threads)).with("keys", J::Int(cfg.keys as i128)).with("ops_per_thread", J::u(cfg.ops))
        .with("pressure", J::Bool(cfg.pressure)).with("ttl", J::Bool(cfg.ttl)).with("same_explicit_weight_per_key", J::Bool(cfg.clean_weights))
        .with("perturbation_permille_yield_spin_sleep", J::s(format!("{:?}", cfg.perturb))).with("forced_delay_site_us", J::s(format!("{:?}", cfg.forced))).with("valueless_upserts", J::Bool(cfg.valueless)).with("churn_on_one_or_two_keys", J::Bool(cfg.churn)).with("config", cfg.sut.to_json());
    prep(rt::rng_for(seed, index, 7).next(), cfg.perturb.0, cfg.perturb.1, cfg.perturb.2, false);
    let panic_mark = rt::panic_count();
    let sut = Sut::new(cfg.sut.clone());
    if let Some((site, micros)) = cfg.forced { sched().force_delay(site, micros, 40); }
    sched().start_trace();
    let stop = Arc::new(AtomicBool::new(false));
    let samples = Arc::new(AtomicU64::new(0));
    let bad = Arc::new(Mutex::new(Vec::new()));
    let (lo, hi) = (Arc::new(AtomicI64::new(0)), Arc::new(AtomicI64::new(0)));
    let mut observers = Vec::new();
    for _ in 0..2 {
        let (cache, stop, samples, bad, lo, hi) = (sut.cache.clone(), stop.clone(), samples.clone(), bad.clone(), lo.clone(), hi.clone());
        let max = cfg.sut.max_weight;
        observers.push(thread::spawn(move || observer(cache, max, stop, samples, bad, lo, hi)));
    }
    // clock advancer: moves the harness clock forward while clients run (expiry + sweeps race the worker)
    let advancer = if cfg.ttl {
        let (clock, stop) = (sut.clock.clone(), stop.clone());
        Some(thread::spawn(move || { rt::register_helper_thread(); let mut n = 0u64; while !stop.load(Ordering::Relaxed) { clock.advance(NS / 4); n += 1; thread::sleep(Duration::from_micros(300)); } n }))
    } else { None };
    let marks = sut.marks;
    let mut crew: rt::Crew<Client> = rt::Crew::new();
    for t in 0..cfg.threads {
        let cache = sut.cache.clone();
        let cfg = cfg.clone();
        let clock = sut.clock.clone();
        let mut rng = rt::rng_for(seed, index, 100 + t as u64);
        crew.spawn(move || {
            let mut client = Client::with_clock(t as u64 + 1, clock);
            client.pre_poll_every = 4;
            for n in 0..cfg.ops {
                if rt::aborted() { break; }
                let key = rng.range(1, cfg.keys);
                if rng.chance(1, 50) {
                    // a write issued from inside the mapping function of map_get, its acknowledgement awaited right there: the caller holds no
                    // reference guard, so the worker must be able to execute it
                    client.settle_all(&marks);
                    let other = rng.range(1, cfg.keys);
                    let value = client.token(other);
                    let op = if rng.chance(1, 2) { WriteOp::PutW { key: other, value, weight: if cfg.clean_weights { key_weight(other) } else { rng.range(25, 60) as i64 } } } else { WriteOp::Delete { key: other } };
                    let (clk_call, call) = (client.clk(), rt::stamp());
                    let cell = std::cell::RefCell::new(&mut client);
                    let got = cache.map_get(&key, |stored| { let mut c = cell.borrow_mut(); c.write(&cache, op.clone()); c.settle_all(&marks); REENTRANT_AWAITS.fetch_add(1, Ordering::Relaxed); stored });
                    // the outer map_get is a read like any other (it is counted as a lookup and judged with the other reads)
                    let (ret, clk_done) = (rt::stamp(), client.clk());
                    client.log.push(OpRec { thread: client.id, call, ret, clk_call, clk_done, outcome: Outcome::Read { key, variant: 2, got } });
                } else if rng.chance(45, 100) {
                    let variant = rng.below(7) as usize;
                    client.read(&cache, key, variant);
                } else {
                    let op = if cfg.churn {
                        let weight = if cfg.clean_weights { key_weight(key) } else { rng.range(25, 60) as i64 };
                        // few deletes when the focus is on put outcomes: the key is then almost always present and every put must be rejected
                        let delete_from = if focus == "C07" { 8 } else { 5 };
                        match rng.below(13) {
                            n if n < delete_from => WriteOp::Upsert { key, value: None, weight: Some(weight), ttl: None, remove_ttl: false },
                            n if n <= 8 => WriteOp::Delete { key },
                            _ => { let value = client.token(key); WriteOp::PutW { key, value, weight } }
                        }
                    } else { gen_write(&mut rng, &mut client, &cfg, key) };
                    client.write(&cache, op);
                    if rng.chance(1, 2) { client.settle_all(&marks); }
                }
                if n % 16 == 15 && rng.chance(1, 3) { client.settle_all(&marks); }
            }
            client.settle_all(&marks);
            client
        });
    }
    let mut logs: Vec<OpRec> = Vec::new();
    let expected_clients = crew.len();
    match crew.join("the clients of a mixed run to finish") {
        Ok(clients) => {
            if clients.len() != expected_clients { findings.push(Finding { props: vec!["C17"], signature: "C17/client-thread-panicked-outside-catch".into(), detail: "a client thread died".into(), witness: case.clone(), inconclusive: false }); }
            for client in clients { counts.add("acknowledgements_first_polled_by_another_task", client.pre_polls); logs.extend(client.log); }
        }
        Err(Waited::Deadlock(description)) => {
            let awaiting = rt::awaiting_now();
            if awaiting > 0 {
                findings.push(Finding { props: vec!["C12", "C18", "C13"], signature: "C12/acknowledgement-never-resolved/clients-parked-for-ever".into(),
                    detail: format!("{} client(s) are parked awaiting acknowledgements that never resolve while every thread is idle and nothing progresses: {}", awaiting, description), witness: case.clone(), inconclusive: false });
            } else {
                findings.push(Finding { props: vec!["C18", "C17"], signature: "C18/deadlock/clients-stuck-inside-api-calls".into(),
                    detail: format!("client threads never returned from their calls and nothing progresses: {}", description), witness: case.clone(), inconclusive: false });
            }
        }
        Err(other) => findings.push(Finding { props: vec!["C18"], signature: "inconclusive/clients".into(), detail: waited_name(&other), witness: J::Null, inconclusive: true }),
    }
    stop.store(true, Ordering::SeqCst);
    // the observers call the API: if the cache is wedged they may never return, so they are not joined blindly
    if rt::join_helpers("the observer threads of a mixed run to finish", observers).is_none() { counts.inc("observer_threads_left_behind"); }
    let advances = advancer.map(|a| a.join().unwrap_or(0)).unwrap_or(0);
    let trace = sched().stop_trace();
    sched().quiet();
    logs.sort_by_key(|r| r.call);
    counts.add("client_operations", logs.len() as u64);
    counts.add("writes_awaited_inside_the_mapping_function_of_map_get", REENTRANT_AWAITS.swap(0, Ordering::Relaxed));
    counts.add("clock_advances", advances);
    counts.add("observer_samples", samples.load(Ordering::Relaxed));
    counts.add("weight_change_events", recorder().weight_events.swap(0, Ordering::Relaxed));
    counts.add("schedule_perturbations_injected", sched().injected.swap(0, Ordering::Relaxed));
    counts.add("forced_long_delays_hit", sched().forced_hits.swap(0, Ordering::Relaxed));
    let witness = |recs: &[&OpRec]| witness_of(&case, recs);
    // C01: online invariant (under the total's lock) + boundary observers
    let dirty = if cfg.clean_weights { "same-weight-per-key" } else { "free-weights" };
    weight_bound_findings(&mut findings, &case, dirty);
    for total in bad.lock().unwrap().iter() {
        findings.push(Finding { props: vec!["C01"], signature: format!("C01/total-outside-bounds/observed-at-api/{}", dirty),
            detail: format!("total_weight_used() returned {} with limit {}", total, cfg.sut.max_weight), witness: case.clone(), inconclusive: false });
    }
    counts.add("max_total_seen_permille_of_limit", if cfg.pressure { (hi.load(Ordering::Relaxed).max(0) as u64 * 1000) / cfg.sut.max_weight as u64 } else { 0 });
    check_ack_outcomes(&logs, false, &mut counts, &mut findings, &witness, panic_mark);
    check_reads(&logs, &mut counts, &mut findings, &witness);
    check_expiry(&logs, &mut counts, &mut findings, &witness);
    if !cfg.pressure && !cfg.ttl { check_definitely_present(&logs, &mut counts, &mut findings, &witness); check_double_accepted_puts(&logs, &mut counts, &mut findings, &witness); }
    // quiescence: every command acknowledged, two sweeps since the clock stopped
    let mut quiescent = true;
    if let Err(waited) = sut.quiesce().and_then(|_| sut.settle_fresh()) {
        quiescent = false;
        push_stuck(&mut findings, "quiescence after a mixed run", waited, &case);
    }
    if quiescent && sut.background_exits().is_empty() {
        check_quiescent_accounting(&sut, dirty, &mut counts, &mut findings, case.clone());
        check_quiescent_stats(&sut, &logs, &mut counts, &mut findings, &case);
        if !cfg.pressure { check_final_values(&sut, &logs, &mut counts, &mut findings, &witness); }
        // corollary through the public API: delete everything, then nothing may stay charged
        let mut client = Client::new(99);
        for key in 1..=cfg.keys { client.write(&sut.cache, WriteOp::Delete { key }); }
        client.settle_all(&marks);
        if sut.quiesce().and_then(|_| sut.settle_fresh()).is_ok() {
            let total = sut.cache.total_weight_used();
            let held = sut.snapshot().stored.len();
            if total != 0 || held != 0 {
                findings.push(Finding { props: vec!["C05"], signature: format!("C05/weight-left-after-deleting-every-key/{}", dirty),
                    detail: format!("after deleting every key and settling, total_weight_used() is {} and {} entries are held", total, held), witness: case.clone(), inconclusive: false });
            }
            counts.inc("delete_everything_checks");
        }
    } else if !sut.background_exits().is_empty() {
        let site = rt::panics_since(panic_mark).last().map(rt::panic_site).unwrap_or_else(|| "no-panic".into());
        findings.push(Finding { props: vec!["C17"], signature: format!("C17/background-thread-exited/{:?}/{}/concurrent", sut.background_exits(), site),
            detail: format!("background thread(s) {:?} exited during a mixed run", sut.background_exits()), witness: case.clone(), inconclusive: false });
    }
    let signature = rt::trace_signature(&trace);
    counts.add("schedule_points_visited", trace.len() as u64);
    let nontrivial = counts.get("reads_overlapping_a_write_of_the_same_key") > 0 && counts.get("reads_returned_value") > 0;
    let sample = case.clone().with("first_operations", J::Arr(logs.iter().take(12).map(|r| r.to_json()).collect()));
    if let Err(waited) = sut.finish_or_leak() { if findings.is_empty() { push_stuck(&mut findings, "shutdown after a mixed run", waited, &case); } }
    counts.inc("cases");
    CaseOut { findings, counts, signature, nontrivial, sample }
}

fn push_stuck(findings: &mut Vec<Finding>, what: &str, waited: Waited, case: &J) {
    match waited {
        Waited::Deadlock(description) => findings.push(Finding { props: vec!["C18", "C13"], signature: format!("C18/deadlock/{}", what.replace(' ', "-")),
            detail: format!("{}: every thread blocked: {}", what, description), witness: case.clone(), inconclusive: false }),
        Waited::WorkerDead => findings.push(Finding { props: vec!["C17"], signature: format!("C17/background-thread-dead/{}", what.replace(' ', "-")),
            detail: format!("{}: a background thread is gone", what), witness: case.clone(), inconclusive: false }),
        other => findings.push(Finding { props: vec!["C18"], signature: "inconclusive/stuck".into(), detail: format!("{}: {}", what, waited_name(&other)), witness: J::Null, inconclusive: true }),
    }
}

// ------------------------------------------------------------------------------------------------ scenario: same-key puts (C05 / C07 directed)

/// Two puts of one key that both pass the existence check before either is applied.
/// variant 0: two threads, the first held at PutAfterPresenceCheck; variant 1: one thread, worker held, no awaiting;
/// variant 2: put racing an upsert of the same absent key; variant 3: delete racing put.
fn run_same_key(focus: &'static str, seed: u64, index: u64) -> CaseOut {
    let mut rng = rt::rng_for(seed, index, 0x5A3E);
    let variant = index % 4;
    let mut counts = Counts::default();
    let mut findings = Vec::new();
    let sutcfg = SutCfg {
        counters: 100, capacity: 16, max_weight: *rng.pick(&[1000i64, 100_000, 150, 400]), shards: 2, cmd_buf: *rng.pick(&[2usize, 8, 64]), pool: 1, buf: 2,
        tick: Duration::from_millis(1), weight_mode: if rng.chance(1, 2) { WeightMode::Default } else { WeightMode::Custom }, hash_mode: HashMode::Default, start_ns: rt::START_NS,
    };
    // every fifth case: each of the racing puts weighs the whole cache, so admitting the second one means evicting the first incarnation of
    // the very same key
    let whole_cache = index % 5 == 4;
    let sutcfg = if whole_cache { SutCfg { max_weight: 150, weight_mode: WeightMode::Custom, ..sutcfg } } else { sutcfg };
    let with_ttl = rng.chance(1, 2);
    let case = J::obj().with("engine", J::s("conc")).with("scenario", J::s("same-key")).with("variant", J::Int(variant as i128)).with("focus", J::s(focus))
        .with("seed", J::Int(seed as i128)).with("index", J::Int(index as i128)).with("config", sutcfg.to_json()).with("with_ttl", J::Bool(with_ttl));
    prep(1, 0, 0, 0, false);
    let panic_mark = rt::panic_count();
    let sut = Sut::new(sutcfg);
    let marks = sut.marks;
    let key = rng.range(1, 4);
    let mut first = Client::new(1);
    let mut second = Client::new(2);
    let make_put = |client: &mut Client, rng: &mut Rng| {
        let value = client.token(key);
        let weight = if whole_cache { 150 } else { rng.range(10, 60) as i64 };
        if with_ttl { WriteOp::PutWTtl { key, value, weight, ttl: Duration::from_secs(3600) } } else { WriteOp::PutW { key, value, weight } }
    };
    let mut window_entered = false;
    match variant {
        0 => {
            let op1 = make_put(&mut first, &mut rng);
            let op2 = make_put(&mut second, &mut rng);
            sched().arm(Site::PutAfterPresenceCheck, 0);
            let cache = sut.cache.clone();
            let handle = thread::spawn(move || { first.write(&cache, op1); first.settle_all(&marks); first });
            if sched().wait_holding(Site::PutAfterPresenceCheck, Duration::from_secs(5)) {
                window_entered = true;
                second.write(&sut.cache, op2);
                second.settle_all(&marks);
            }
            sched().release(Site::PutAfterPresenceCheck);
            first = handle.join().unwrap();
        }
        1 => {
            let op1 = make_put(&mut first, &mut rng);
            let op2 = make_put(&mut first, &mut rng);
            sched().arm(Site::WorkerDequeued, 0);
            // a harmless command first, so that the worker is held before it can apply either put
            second.write(&sut.cache, WriteOp::Delete { key: 77 });
            if sched().wait_holding(Site::WorkerDequeued, Duration::from_secs(5)) {
                window_entered = true;
                first.write(&sut.cache, op1);
                first.write(&sut.cache, op2);
            }
            sched().release(Site::WorkerDequeued);
            first.settle_all(&marks);
            second.settle_all(&marks);
        }
        2 => {
            let op1 = make_put(&mut first, &mut rng);
            let value = second.token(key);
            let op2 = WriteOp::Upsert { key, value: Some(value), weight: Some(rng.range(10, 60) as i64), ttl: if with_ttl { Some(Duration::from_secs(7200)) } else { None }, remove_ttl: false };
            sched().arm(Site::WorkerDequeued, 0);
            second.write(&sut.cache, WriteOp::Delete { key: 77 });
            if sched().wait_holding(Site::WorkerDequeued, Duration::from_secs(5)) {
                window_entered = true;
                first.write(&sut.cache, op1);
                second.write(&sut.cache, op2);
            }
            sched().release(Site::WorkerDequeued);
            first.settle_all(&marks);
            second.settle_all(&marks);
        }
        _ => {
            // put acknowledged, then delete and a fresh put issued back to back without awaiting, worker held
            let op0 = make_put(&mut first, &mut rng);
            first.write(&sut.cache, op0);
            first.settle_all(&marks);
            let op2 = make_put(&mut second, &mut rng);
            sched().arm(Site::WorkerDequeued, 0);
            first.write(&sut.cache, WriteOp::Delete { key });
            if sched().wait_holding(Site::WorkerDequeued, Duration::from_secs(5)) {
                window_entered = true;
                second.write(&sut.cache, op2);
            }
            sched().release(Site::WorkerDequeued);
            first.settle_all(&marks);
            second.settle_all(&marks);
        }
    }
    if window_entered { counts.inc("races_where_both_writes_passed_the_existence_check_before_the_first_was_applied"); } else { counts.inc("window_not_entered"); }
    let mut logs: Vec<OpRec> = Vec::new();
    logs.extend(first.log.iter().cloned());
    logs.extend(second.log.iter().cloned());
    logs.sort_by_key(|r| r.call);
    let witness = |recs: &[&OpRec]| witness_of(&case, recs);
    let race_logs: Vec<OpRec> = logs.clone();
    let all: Vec<&OpRec> = race_logs.iter().collect();
    check_ack_outcomes(&logs, false, &mut counts, &mut findings, &witness, panic_mark);
    // C07 (concurrent form): of two racing puts of one key at most one may be accepted, and the loser's value is never read
    let puts: Vec<&OpRec> = race_logs.iter().filter(|r| matches!(&r.outcome, Outcome::Write { op, .. } if op.is_put() && op.key() == key)).collect();
    let accepted_puts: Vec<&&OpRec> = puts.iter().filter(|r| matches!(&r.outcome, Outcome::Write { status: Some(Waited::Ready(CommandStatus::Accepted)), .. })).collect();
    if variant <= 1 && window_entered && accepted_puts.len() > 1 {
        findings.push(Finding { props: vec!["C07", "C05"], signature: format!("C07/two-racing-puts-of-one-key-both-accepted/variant={}", variant),
            detail: format!("two puts of key {} that both passed the existence check before the first was applied were both acknowledged Accepted: the second silently overwrote the first", key),
            witness: witness(&all), inconclusive: false });
    }
    let mut reader = Client::new(3);
    for v in 0..7 { reader.read(&sut.cache, key, v); }
    logs.extend(reader.log.iter().cloned());
    logs.sort_by_key(|r| r.call);
    check_reads(&logs, &mut counts, &mut findings, &witness);
    if let Err(waited) = sut.quiesce().and_then(|_| sut.settle_fresh()) {
        push_stuck(&mut findings, "quiescence after a same-key race", waited, &case);
    } else {
        let context = format!("same-key/variant={}", variant);
        check_quiescent_accounting(&sut, &context, &mut counts, &mut findings, witness(&all));
        capacity_probe(&sut, &context, &mut counts, &mut findings, witness(&all));
        let _ = sut.quiesce();
        let mut client = Client::new(99);
        client.write(&sut.cache, WriteOp::Delete { key });
        client.settle_all(&marks);
        if sut.quiesce().and_then(|_| sut.settle_fresh()).is_ok() {
            let total = sut.cache.total_weight_used();
            if total != 0 {
                findings.push(Finding { props: vec!["C05"], signature: format!("C05/weight-left-after-deleting-every-key/{}", context),
                    detail: format!("after the race the key was deleted (acknowledged) and the cache holds nothing, yet total_weight_used() is {}", total), witness: witness(&all), inconclusive: false });
            }
            counts.inc("delete_everything_checks");
        }
    }
    let signature = fnv_step(fnv_step(0x5A3E, variant), (with_ttl as u64) << 8 | sut.cfg.cmd_buf as u64);
    let sample = case.clone().with("operations", J::Arr(logs.iter().take(12).map(|r| r.to_json()).collect()));
    if let Err(waited) = sut.finish_or_leak() { if findings.is_empty() { push_stuck(&mut findings, "shutdown after a same-key race", waited, &case); } }
    counts.inc("cases");
    CaseOut { findings, counts, signature: fnv_step(signature, key), nontrivial: window_entered, sample }
}

/// Sites whose critical section / gap is worth stretching: another thread's racing step then lands inside it.
pub const STRETCH_SITES: [Site; 10] = [
    Site::WeightUpdateHoldingEntry, Site::WeightDeleteAfterRemove, Site::WeightDeleteHoldingTotal, Site::WeightAddBetween,
    Site::AdmissionAfterSpaceCheck, Site::AdmissionAfterEvict, Site::WorkerAfterStoreInsert, Site::WorkerDeleteAfterStore,
    Site::UpsertAfterStoreUpdate, Site::SweepBeforeEvict,
];

// ------------------------------------------------------------------------------------------------ scenario: worker vs sweeper on the same keys (C01 / C05 / C10 directed)

/// Keys with a time-to-live are updated / deleted / re-put by the worker while the clock crosses their expiry, with one
/// site stretched by a long bounded delay so that the sweeper's eviction of a key lands inside the worker's step on the
/// same key (or the other way round). Accounting and bounds are checked at quiescence.
fn run_update_sweep(focus: &'static str, seed: u64, index: u64) -> CaseOut {
    let mut rng = rt::rng_for(seed, index, 0x0D5);
    let site = STRETCH_SITES[(index % STRETCH_SITES.len() as u64) as usize];
    let shards = *rng.pick(&[2usize, 2, 4]);
    let pressure = rng.chance(1, 3);
    let sutcfg = SutCfg { counters: 100, capacity: 16, max_weight: if pressure { 200 } else { 100_000 }, shards, cmd_buf: 8, pool: 1, buf: 2, tick: Duration::from_millis(1),
        weight_mode: WeightMode::Custom, hash_mode: HashMode::Default, start_ns: rt::START_NS };
    let case = J::obj().with("engine", J::s("conc")).with("scenario", J::s("update-sweep")).with("focus", J::s(focus)).with("seed", J::Int(seed as i128))
        .with("index", J::Int(index as i128)).with("stretched_site", J::s(format!("{:?}", site))).with("config", sutcfg.to_json());
    let mut counts = Counts::default();
    let mut findings = Vec::new();
    prep(1, 0, 0, 0, false);
    let panic_mark = rt::panic_count();
    let sut = Sut::new(sutcfg);
    let marks = sut.marks;
    let mut client = Client::new(1);
    let n_keys = rng.range(2, 4);
    let ttl_secs = rng.range(1, 3);
    for key in 1..=n_keys {
        let value = client.token(key);
        client.write(&sut.cache, WriteOp::PutWTtl { key, value, weight: 40 + key as i64 * 5, ttl: Duration::from_secs(ttl_secs + (key % 2)) });
    }
    client.settle_all(&marks);
    let delay_us = rng.range(3000, 7000);
    sched().force_delay(site, delay_us, 6);
    // the racing steps: weight-changing upserts (both directions), a delete and a fresh put, none awaited yet
    for key in 1..=n_keys {
        let value = client.token(key);
        let op = match (key + index) % 4 {
            0 => WriteOp::Upsert { key, value: Some(value), weight: Some(30), ttl: None, remove_ttl: false },
            1 => WriteOp::Upsert { key, value: Some(value), weight: Some(70 + key as i64), ttl: None, remove_ttl: false },
            2 => WriteOp::Delete { key },
            _ => WriteOp::Upsert { key, value: Some(value), weight: Some(45), ttl: Some(Duration::from_secs(ttl_secs + 4)), remove_ttl: false },
        };
        client.write(&sut.cache, op);
    }
    let fresh = 10 + index % 3;
    let value = client.token(fresh);
    client.write(&sut.cache, WriteOp::PutWTtl { key: fresh, value, weight: 50, ttl: Duration::from_secs(1) });
    // cross the expiries while those commands execute: dwell on `shards` consecutive seconds so that every shard is swept
    thread::sleep(Duration::from_micros(rng.range(200, 1500)));
    sut.advance((ttl_secs + 2) * NS);
    for _ in 0..shards {
        thread::sleep(Duration::from_millis(2));
        sut.advance(NS);
    }
    client.settle_all(&marks);
    counts.add("forced_long_delays_hit", sched().forced_hits.swap(0, Ordering::Relaxed));
    sched().clear_forced();
    let logs = client.log.clone();
    let witness = |recs: &[&OpRec]| witness_of(&case, recs);
    check_ack_outcomes(&logs, false, &mut counts, &mut findings, &witness, panic_mark);
    weight_bound_findings(&mut findings, &case, "update-sweep");
    match sut.quiesce().and_then(|_| sut.settle_fresh()) {
        Err(waited) => push_stuck(&mut findings, "quiescence after an update/sweep race", waited, &case),
        Ok(()) => {
            let all: Vec<&OpRec> = logs.iter().collect();
            let context = format!("update-sweep/site={:?}", site);
            check_quiescent_accounting(&sut, &context, &mut counts, &mut findings, witness(&all));
            let mut cleaner = Client::new(9);
            for key in (1..=n_keys).chain(10..13) { cleaner.write(&sut.cache, WriteOp::Delete { key }); }
            cleaner.settle_all(&marks);
            if sut.quiesce().and_then(|_| sut.settle_fresh()).is_ok() {
                let total = sut.cache.total_weight_used();
                let held = sut.snapshot().stored.len();
                if total != 0 || held != 0 {
                    findings.push(Finding { props: vec!["C05", "C01", "C10"], signature: format!("C05/weight-left-after-deleting-every-key/{}", context),
                        detail: format!("after the race every key was deleted (acknowledged), yet total_weight_used() is {} and {} entries are held", total, held), witness: witness(&all), inconclusive: false });
                }
                counts.inc("delete_everything_checks");
            }
            weight_bound_findings(&mut findings, &case, "update-sweep");
        }
    }
    counts.add("sweeps_overlapping_worker_commands", recorder().swept_ids.swap(0, Ordering::Relaxed));
    let signature = fnv_step(fnv_step(fnv_step(0x0D5, index % 40), shards as u64), n_keys << 4 | ttl_secs);
    let sample = case.clone().with("operations", J::Arr(logs.iter().take(10).map(|r| r.to_json()).collect()));
    if let Err(waited) = sut.finish_or_leak() { if findings.is_empty() { push_stuck(&mut findings, "shutdown after an update/sweep race", waited, &case); } }
    counts.inc("cases");
    CaseOut { findings, counts, signature, nontrivial: true, sample }
}

/// Directed reproduction of "the sweeper's evict hook removes the store entry by key": the sweeper is stretched right after it
/// removed the expired id from the weight map; meanwhile the key loses its TTL in place (so the worker's delete does not touch
/// the locked TTL shard), is deleted and put again; when the sweeper resumes its hook must not remove the *new* entry.
fn run_sweep_reput(focus: &'static str, seed: u64, index: u64) -> CaseOut {
    let mut rng = rt::rng_for(seed, index, 0x5EE9);
    let shards = *rng.pick(&[2usize, 4]);
    let sutcfg = SutCfg { counters: 100, capacity: 16, max_weight: 100_000, shards, cmd_buf: 8, pool: 1, buf: 2, tick: Duration::from_millis(1),
        weight_mode: WeightMode::Custom, hash_mode: HashMode::Default, start_ns: rt::START_NS };
    let change_ttl_instead = index % 2 == 1;
    let case = J::obj().with("engine", J::s("conc")).with("scenario", J::s("sweep-reput")).with("focus", J::s(focus)).with("seed", J::Int(seed as i128))
        .with("index", J::Int(index as i128)).with("upsert_changes_ttl_instead_of_removing_it", J::Bool(change_ttl_instead)).with("config", sutcfg.to_json());
    let mut counts = Counts::default();
    let mut findings = Vec::new();
    prep(1, 0, 0, 0, false);
    let panic_mark = rt::panic_count();
    let sut = Sut::new(sutcfg);
    let marks = sut.marks;
    let key = rng.range(1, 3);
    let mut client = Client::new(1);
    let first = client.token(key);
    client.write(&sut.cache, WriteOp::PutWTtl { key, value: first, weight: 30, ttl: Duration::from_secs(1) });
    client.settle_all(&marks);
    // stretch the sweeper between "id removed from the weight map" and "total reduced / store entry removed"
    sched().forced_hits.store(0, Ordering::SeqCst);
    sched().force_delay(Site::WeightDeleteAfterRemove, 12_000, 1);
    sut.advance((1 + shards as u64) * NS); // a later second that maps to the shard of the expiry
    let stalled = rt::poll_until(Duration::from_millis(300), || sched().forced_hits.load(Ordering::SeqCst) >= 1);
    let mut window = false;
    let mut second = 0;
    let mut upserter_log: Vec<OpRec> = Vec::new();
    if stalled {
        // an upsert that detaches the stored entry from the TTL shard the sweeper holds; it blocks on that shard afterwards
        let cache = sut.cache.clone();
        let upserter = thread::spawn(move || {
            let mut other = Client::new(2);
            let value = other.token(key);
            let op = if change_ttl_instead { WriteOp::Upsert { key, value: Some(value), weight: Some(30), ttl: Some(Duration::from_secs(1000 + 1)), remove_ttl: false } }
                else { WriteOp::Upsert { key, value: Some(value), weight: Some(30), ttl: None, remove_ttl: true } };
            other.write(&cache, op);
            other.settle_all(&marks);
            other
        });
        thread::sleep(Duration::from_micros(1500));
        client.write(&sut.cache, WriteOp::Delete { key });
        client.settle_all(&marks);
        second = client.token(key);
        client.write(&sut.cache, WriteOp::PutW { key, value: second, weight: 30 });
        client.settle_all(&marks);
        window = sched().forced_left.load(Ordering::SeqCst) == 0;
        if let Ok(other) = upserter.join() { upserter_log = other.log; }
    }
    sched().clear_forced();
    if window { counts.inc("reputs_completed_while_the_sweeper_was_stretched"); } else { counts.inc("window_not_entered"); }
    let mut logs = client.log.clone();
    logs.extend(upserter_log);
    logs.sort_by_key(|r| r.call);
    let witness = |recs: &[&OpRec]| witness_of(&case, recs);
    let all_logs = logs.clone();
    let all: Vec<&OpRec> = all_logs.iter().collect();
    check_ack_outcomes(&logs, false, &mut counts, &mut findings, &witness, panic_mark);
    match sut.quiesce().and_then(|_| sut.settle_fresh()) {
        Err(waited) => push_stuck(&mut findings, "quiescence after a sweep/re-put race", waited, &case),
        Ok(()) => {
            let put_accepted = matches!(&client.log.last().map(|r| &r.outcome), Some(Outcome::Write { status: Some(Waited::Ready(CommandStatus::Accepted)), .. }));
            let ok = check_quiescent_accounting(&sut, "sweep-reput", &mut counts, &mut findings, witness(&all));
            if stalled && put_accepted {
                counts.inc("reput_presence_checks");
                let got = sut.cache.get(&key);
                // the upsert is meant to run before the delete, but its thread may be scheduled late: if its call had not returned before
                // the delete began, it may legitimately have been applied to the new entry, whose value it then replaced
                let delete_call = client.log.iter().find_map(|r| match &r.outcome { Outcome::Write { op: WriteOp::Delete { .. }, .. } => Some(r.call), _ => None }).unwrap_or(0);
                let late_upsert_value = all_logs.iter().find_map(|r| match &r.outcome {
                    Outcome::Write { op: WriteOp::Upsert { value: Some(v), .. }, status: Some(Waited::Ready(CommandStatus::Accepted)), .. } if r.ret > delete_call => Some(*v), _ => None });
                if late_upsert_value.is_some() { counts.inc("upserts_that_ran_late_in_the_reput_race"); }
                if got != Some(second) && !(got.is_some() && got == late_upsert_value) && ok {
                    findings.push(Finding { props: vec!["C03", "C10"], signature: "C03/accepted-put-lost/sweep-reput".into(),
                        detail: format!("key {} was put again (accepted, no TTL, no later delete) while the sweeper was evicting its expired earlier incarnation; it reads {:?}", key, got), witness: witness(&all), inconclusive: false });
                }
            }
        }
    }
    weight_bound_findings(&mut findings, &case, "sweep-reput");
    let signature = fnv_step(fnv_step(0x5EE9, index % 8), key << 4 | shards as u64);
    let sample = case.clone().with("operations", J::Arr(logs.iter().take(10).map(|r| r.to_json()).collect()));
    if let Err(waited) = sut.finish_or_leak() { if findings.is_empty() { push_stuck(&mut findings, "shutdown after a sweep/re-put race", waited, &case); } }
    counts.inc("cases");
    CaseOut { findings, counts, signature, nontrivial: window, sample }
}

// ------------------------------------------------------------------------------------------------ scenario: sweeper stretched on one key while another key's state changes (C01 / C09 / C10 / C03 directed)

/// Variants (index % 3):
/// 0 "full cache": one key whose weight is the whole cache expires; the sweeper is stretched in the middle of evicting it while
///   the worker admits another key of the same weight. The total must never exceed the limit (C01), whatever the put is answered.
/// 1 "ttl removed during the sweep": the sweeper is stretched (holding the TTL shard) on an expired key J while a client removes
///   (or extends) the time-to-live of a live key K registered in the same shard; later the clock passes K's old deadline: K must
///   still be readable (C09 / C10).
/// 2 "capacity probe": worker adds race sweeper deletes with the stretch in the add / delete paths; afterwards a put that
///   exactly fills the cache according to the weights really held must be accepted without evicting anything (C03 / C06).
fn run_sweep_other_key(focus: &'static str, seed: u64, index: u64) -> CaseOut {
    let mut rng = rt::rng_for(seed, index, 0x50C);
    let variant = index % 4;
    let shards = 2usize;
    let max_weight: i64 = match variant { 0 => 100, 2 => 400, _ => 100_000 };
    let sutcfg = SutCfg { counters: 100, capacity: 16, max_weight, shards, cmd_buf: 8, pool: 1, buf: 2, tick: Duration::from_millis(1),
        weight_mode: WeightMode::Custom, hash_mode: HashMode::Default, start_ns: rt::START_NS };
    let sites_delete = [Site::WeightDeleteAfterRemove, Site::WeightDeleteHoldingTotal, Site::SweepBeforeEvict];
    let sites_add = [Site::WeightAddBetween, Site::WeightDeleteAfterRemove, Site::WeightDeleteHoldingTotal, Site::AdmissionAfterSpaceCheck];
    let site = if variant == 2 { sites_add[((index / 4) % 4) as usize] } else { sites_delete[((index / 4) % 3) as usize] };
    // variant 1, every fourth time: the sweeper keeps its shard for 150 ms (a slow destructor of an evicted value would do that), far beyond
    // any bounded wait a client-side index operation might be tempted to use
    let long_hold = variant == 1 && (index / 4) % 4 == 3;
    let site = if long_hold { Site::SweepBeforeEvict } else { site };
    let case = J::obj().with("engine", J::s("conc")).with("scenario", J::s("sweep-other-key")).with("sweeper_keeps_its_shard_for_150_ms", J::Bool(long_hold)).with("variant", J::Int(variant as i128)).with("focus", J::s(focus))
        .with("seed", J::Int(seed as i128)).with("index", J::Int(index as i128)).with("stretched_site", J::s(format!("{:?}", site))).with("config", sutcfg.to_json());
    let mut counts = Counts::default();
    let mut findings = Vec::new();
    prep(1, 0, 0, 0, false);
    let panic_mark = rt::panic_count();
    let sut = Sut::new(sutcfg);
    let marks = sut.marks;
    let mut client = Client::new(1);
    let mut nontrivial = false;
    let witness_case = case.clone();
    let witness = |recs: &[&OpRec]| witness_of(&witness_case, recs);
    match variant {
        0 => {
            let v = client.token(1);
            client.write(&sut.cache, WriteOp::PutWTtl { key: 1, value: v, weight: max_weight, ttl: Duration::from_secs(1) });
            client.settle_all(&marks);
            sched().forced_hits.store(0, Ordering::SeqCst);
            sched().force_delay(site, 8_000, 1);
            sut.advance(3 * NS);
            let stalled = rt::poll_until(Duration::from_millis(300), || sched().forced_hits.load(Ordering::SeqCst) >= 1);
            let v2 = client.token(2);
            client.write(&sut.cache, WriteOp::PutW { key: 2, value: v2, weight: max_weight });
            client.settle_all(&marks);
            if stalled && sched().forced_left.load(Ordering::SeqCst) == 0 { nontrivial = true; counts.inc("puts_admitted_while_the_sweeper_was_mid_eviction"); }
        }
        1 => {
            let (vj, vk) = (client.token(1), client.token(2));
            client.write(&sut.cache, WriteOp::PutWTtl { key: 1, value: vj, weight: 30, ttl: Duration::from_secs(1) });
            // K expires four seconds later: same shard (2 shards), well before its deadline when J is swept
            client.write(&sut.cache, WriteOp::PutWTtl { key: 2, value: vk, weight: 30, ttl: Duration::from_secs(5) });
            client.settle_all(&marks);
            sched().forced_hits.store(0, Ordering::SeqCst);
            sched().force_delay(site, if long_hold { 150_000 } else { 8_000 }, 1);
            if long_hold { counts.inc("ttl_changes_made_while_the_sweeper_kept_its_shard_for_150_ms"); }
            sut.advance(3 * NS); // J (expiry +1 s) is past, K (expiry +5 s) is still two seconds away; the current second maps to their shard
            let stalled = rt::poll_until(Duration::from_millis(300), || sched().forced_hits.load(Ordering::SeqCst) >= 1);
            // the sweeper now holds that TTL shard; change K's registration from a client
            let extend = index % 2 == 0;
            let op = if extend { WriteOp::Upsert { key: 2, value: None, weight: Some(30), ttl: Some(Duration::from_secs(1000)), remove_ttl: false } }
                else { WriteOp::Upsert { key: 2, value: None, weight: Some(30), ttl: None, remove_ttl: true } };
            client.write(&sut.cache, op);
            client.settle_all(&marks);
            if stalled { nontrivial = true; counts.inc("ttl_changes_made_while_the_sweeper_held_the_shard"); }
            sched().clear_forced();
            // cross K's old deadline on both shards
            let _ = sut.quiesce().and_then(|_| sut.settle_fresh());
            for _ in 0..(shards + 3) { sut.advance(NS); if sut.settle().is_err() { break; } }
            let got = sut.cache.get(&2);
            counts.inc("reads_after_the_old_deadline_of_a_key_whose_ttl_was_changed");
            if got != Some(vk) {
                findings.push(Finding { props: vec!["C09", "C10", "C08", "C03"], signature: format!("C10/key-lost-at-its-old-deadline/{}", if extend { "ttl-extended" } else { "ttl-removed" }),
                    detail: format!("key 2 had its time-to-live {} by an acknowledged put_or_update while the sweeper was busy in the same TTL shard; after the clock passed the old deadline it reads {:?}", if extend { "extended" } else { "removed" }, got),
                    witness: witness(&client.log.iter().collect::<Vec<_>>()), inconclusive: false });
            }
        }
        3 => {
            // "expired key touched during the sweep": J and K are both past their deadline in the same TTL shard; the sweeper is
            // stretched on whichever it visits first while a client extends K's time-to-live with a value-bearing upsert (applied
            // in place on the expired entry, then blocked on the shard). Whatever the sweeper then does with K's stale
            // registration, store and weight map must agree afterwards.
            let (vj, vk) = (client.token(1), client.token(2));
            client.write(&sut.cache, WriteOp::PutWTtl { key: 1, value: vj, weight: 30, ttl: Duration::from_secs(1) });
            client.write(&sut.cache, WriteOp::PutWTtl { key: 2, value: vk, weight: 30, ttl: Duration::from_secs(1) });
            client.settle_all(&marks);
            sched().forced_hits.store(0, Ordering::SeqCst);
            sched().force_delay(site, 8_000, 1);
            sut.advance(3 * NS);
            let stalled = rt::poll_until(Duration::from_millis(300), || sched().forced_hits.load(Ordering::SeqCst) >= 1);
            let v2 = client.token(2);
            let extend = index % 8 < 4;
            let op = if extend { WriteOp::Upsert { key: 2, value: Some(v2), weight: Some(30), ttl: Some(Duration::from_secs(1000)), remove_ttl: false } }
                else { WriteOp::Upsert { key: 2, value: Some(v2), weight: Some(30), ttl: None, remove_ttl: true } };
            client.write(&sut.cache, op);
            client.settle_all(&marks);
            if stalled { nontrivial = true; counts.inc("upserts_of_an_expired_key_made_while_the_sweeper_held_the_shard"); }
            sched().clear_forced();
        }
        _ => {
            // resident keys, some with a TTL that is about to pass; the worker keeps adding while the sweeper deletes
            for key in 1..=4u64 {
                let v = client.token(key);
                client.write(&sut.cache, WriteOp::PutWTtl { key, value: v, weight: 40, ttl: Duration::from_secs(1 + key % 2) });
            }
            client.settle_all(&marks);
            sched().forced_hits.store(0, Ordering::SeqCst);
            sched().force_delay(site, rng.range(2000, 6000), 4);
            sut.advance(2 * NS + 1);
            for key in 10..16u64 {
                let v = client.token(key);
                client.write(&sut.cache, WriteOp::PutW { key, value: v, weight: 20 });
                if key % 2 == 0 { sut.advance(NS); }
            }
            client.settle_all(&marks);
            sched().clear_forced();
            if sched().forced_hits.load(Ordering::SeqCst) > 0 { nontrivial = true; }
            if sut.quiesce().and_then(|_| sut.settle_fresh()).is_ok() {
                // capacity probe: according to the weights really held this put fits exactly
                let snapshot = sut.snapshot();
                let held: i64 = snapshot.charged.iter().map(|e| e.3).sum();
                let before: BTreeSet<u64> = snapshot.stored.iter().map(|e| e.0).collect();
                let room = max_weight - held;
                if room > 0 {
                    let v = client.token(99);
                    client.write(&sut.cache, WriteOp::PutW { key: 99, value: v, weight: room });
                    client.settle_all(&marks);
                    counts.inc("capacity_probes");
                    let status = match &client.log.last().unwrap().outcome { Outcome::Write { status: Some(Waited::Ready(s)), .. } => Some(*s), _ => None };
                    let after: BTreeSet<u64> = sut.snapshot().stored.iter().map(|e| e.0).collect();
                    let lost: Vec<u64> = before.difference(&after).copied().collect();
                    if status != Some(CommandStatus::Accepted) || !lost.is_empty() {
                        findings.push(Finding { props: vec!["C03", "C06", "C05"], signature: "C03/capacity-lost-after-sweep-race".into(),
                            detail: format!("the keys held weigh {} of {}; a put of weight {} (an exact fit) was answered {:?} and evicted {:?}: capacity is silently lost", held, max_weight, room, status.map(|s| status_name(&s)), lost),
                            witness: witness(&client.log.iter().collect::<Vec<_>>()), inconclusive: false });
                    }
                }
            }
        }
    }
    sched().clear_forced();
    counts.add("forced_long_delays_hit", sched().forced_hits.swap(0, Ordering::Relaxed));
    let logs = client.log.clone();
    check_ack_outcomes(&logs, false, &mut counts, &mut findings, &witness, panic_mark);
    weight_bound_findings(&mut findings, &case, &format!("sweep-other-key/variant={}", variant));
    match sut.quiesce().and_then(|_| sut.settle_fresh()) {
        Err(waited) => push_stuck(&mut findings, "quiescence after a sweep race", waited, &case),
        Ok(()) => {
            let all: Vec<&OpRec> = logs.iter().collect();
            check_quiescent_accounting(&sut, &format!("sweep-other-key/variant={}", variant), &mut counts, &mut findings, witness(&all));
            let total = sut.cache.total_weight_used();
            if total < 0 || total > max_weight {
                findings.push(Finding { props: vec!["C01"], signature: format!("C01/total-outside-bounds/observed-at-api/sweep-other-key/variant={}", variant),
                    detail: format!("total_weight_used() is {} with limit {}", total, max_weight), witness: witness(&all), inconclusive: false });
            }
        }
    }
    // variant 3, epilogue: let even the extended time-to-live pass and the sweeps go round; whatever became of K, reads and puts must agree:
    // a key that reads as absent can be put (never KeyAlreadyExists), a readable key cannot
    if variant == 3 && !rt::aborted() {
        sut.advance(1001 * NS);
        let mut settled = sut.settle().is_ok();
        for _ in 0..(shards + 2) { if !settled { break; } sut.advance(NS); settled = sut.settle().is_ok(); }
        if settled {
            let mut prober = Client::new(7);
            for key in [1u64, 2] {
                let readable = sut.cache.get(&key).is_some();
                let value = prober.token(key);
                let at = prober.write(&sut.cache, WriteOp::PutW { key, value, weight: 30 });
                prober.settle_all(&marks);
                let status = match &prober.log[at].outcome { Outcome::Write { status: Some(Waited::Ready(s)), .. } => Some(*s), _ => None };
                counts.inc("puts_after_a_sweep_race_and_full_cycles_judged");
                let exists = status == Some(CommandStatus::Rejected(RejectionReason::KeyAlreadyExists));
                if !readable && exists {
                    findings.push(Finding { props: vec!["C07", "C10"], signature: "C07/key-already-exists-for-unreadable-key/after-sweep-race".into(),
                        detail: format!("key {} reads as absent after every time-to-live has passed and the sweeps went round, yet a put is refused with KeyAlreadyExists: the entry can never be read, swept or replaced", key),
                        witness: witness(&client.log.iter().collect::<Vec<_>>()), inconclusive: false });
                } else if readable && !exists && status.is_some() {
                    findings.push(Finding { props: vec!["C07"], signature: "C07/put-on-readable-key-not-rejected/after-sweep-race".into(),
                        detail: format!("put of readable key {} resolved to {:?}", key, status.map(|s| status_name(&s))), witness: witness(&client.log.iter().collect::<Vec<_>>()), inconclusive: false });
                }
            }
        }
    }
    let signature = fnv_step(fnv_step(0x50C, index % 48), variant);
    let sample = case.clone().with("operations", J::Arr(logs.iter().take(10).map(|r| r.to_json()).collect()));
    if let Err(waited) = sut.finish_or_leak() { if findings.is_empty() { push_stuck(&mut findings, "shutdown after a sweep race", waited, &case); } }
    counts.inc("cases");
    CaseOut { findings, counts, signature, nontrivial, sample }
}

// ------------------------------------------------------------------------------------------------ scenario: a reader keeps reference guards while a key of the same shard expires

/// A client holds `get_ref` guards on a handful of long-lived keys (covering every store shard) for 30 ms without calling the cache, while
/// the clock passes the deadline of another key and the sweeper comes for it. However long the sweeper has to wait for the shard, once the
/// reader lets go and the sweeps have gone round the expired key must be gone, released, and puttable again.
fn run_held_ref(focus: &'static str, seed: u64, index: u64) -> CaseOut {
    let mut rng = rt::rng_for(seed, index, 0x4EF);
    let shards = *rng.pick(&[2usize, 4]);
    let sutcfg = SutCfg { counters: 100, capacity: 16, max_weight: 100_000, shards, cmd_buf: 8, pool: 1, buf: 2, tick: Duration::from_millis(1),
        weight_mode: WeightMode::Custom, hash_mode: HashMode::Default, start_ns: rt::START_NS };
    let case = J::obj().with("engine", J::s("conc")).with("scenario", J::s("held-ref")).with("focus", J::s(focus)).with("seed", J::Int(seed as i128)).with("index", J::Int(index as i128)).with("config", sutcfg.to_json());
    let mut counts = Counts::default();
    let mut findings = Vec::new();
    prep(1, 0, 0, 0, false);
    let sut = Sut::new(sutcfg);
    let marks = sut.marks;
    let mut client = Client::new(1);
    let expiring = client.token(1);
    client.write(&sut.cache, WriteOp::PutWTtl { key: 1, value: expiring, weight: 30, ttl: Duration::from_secs(1) });
    for key in 2..=12u64 { let v = client.token(key); client.write(&sut.cache, WriteOp::PutW { key, value: v, weight: 10 }); }
    client.settle_all(&marks);
    let hold_ms = *rng.pick(&[5u64, 30, 60]);
    {
        let guards: Vec<_> = (2..=12u64).filter_map(|key| sut.cache.get_ref(&key)).collect();
        counts.add("reference_guards_held_while_a_key_expired", guards.len() as u64);
        sut.advance((1 + shards as u64) * NS);
        thread::sleep(Duration::from_millis(hold_ms)); // the reader is busy with what it read; it does not call the cache
        drop(guards);
    }
    let mut nontrivial = false;
    match sut.quiesce().and_then(|_| sut.settle_fresh()) {
        Err(waited) => push_stuck(&mut findings, "sweeps after a reader let go of its guards", waited, &case),
        Ok(()) => {
            for _ in 0..(shards + 1) { sut.advance(NS); if sut.settle().is_err() { break; } }
            nontrivial = true;
            let snapshot = sut.snapshot();
            if snapshot.stored.iter().any(|e| e.0 == 1) {
                findings.push(Finding { props: vec!["C10", "C05", "C07"], signature: "C10/expired-key-still-stored-after-a-reader-let-go".into(),
                    detail: format!("key 1 expired while a reader held reference guards on other keys for {} ms; the guards are gone, the sweeps went round all {} shards, and the entry is still in the store", hold_ms, shards), witness: case.clone(), inconclusive: false });
            }
            if snapshot.weight_used != 110 {
                findings.push(Finding { props: vec!["C10", "C05"], signature: "C10/weight-after-a-reader-let-go".into(), detail: format!("eleven keys of weight 10 are held, the total is {}", snapshot.weight_used), witness: case.clone(), inconclusive: false });
            }
            let v = client.token(1);
            let at = client.write(&sut.cache, WriteOp::PutW { key: 1, value: v, weight: 30 });
            client.settle_all(&marks);
            if let Outcome::Write { status: Some(Waited::Ready(status)), .. } = &client.log[at].outcome {
                if *status != CommandStatus::Accepted {
                    findings.push(Finding { props: vec!["C07", "C10"], signature: "C07/key-already-exists-for-unreadable-key/after-a-reader-let-go".into(),
                        detail: format!("key 1 reads as absent (expired, sweeps done) and a put of it resolved to {}", status_name(status)), witness: case.clone(), inconclusive: false });
                }
            }
            counts.inc("expiries_behind_held_reference_guards_checked");
        }
    }
    if let Err(waited) = sut.finish_or_leak() { if findings.is_empty() { push_stuck(&mut findings, "shutdown after the held-ref case", waited, &case); } }
    counts.inc("cases");
    CaseOut { findings, counts, signature: fnv_step(0x4EF, hold_ms * 10 + shards as u64), nontrivial, sample: case }
}

// ------------------------------------------------------------------------------------------------ scenario: a readable key in a store shard that is kept write-locked (C07 / C08 directed)

/// Hammer threads keep the store shards write-locked (time-to-live-only upserts of other keys: applied in place, no command
/// queued) while the main client puts and upserts a key that is readable the whole time: every put must be answered
/// KeyAlreadyExists and leave the value alone, every upsert must be Accepted and visible at once.
fn run_locked_shard(focus: &'static str, seed: u64, index: u64) -> CaseOut {
    let mut rng = rt::rng_for(seed, index, 0x10C);
    let hammers = *rng.pick(&[4usize, 6, 8]);
    let sutcfg = SutCfg { counters: 100, capacity: 16, max_weight: 1_000_000, shards: 2, cmd_buf: *rng.pick(&[4usize, 64]), pool: 1, buf: 2, tick: Duration::from_secs(3600),
        weight_mode: WeightMode::Custom, hash_mode: HashMode::Default, start_ns: rt::START_NS };
    let case = J::obj().with("engine", J::s("conc")).with("scenario", J::s("locked-shard")).with("focus", J::s(focus)).with("seed", J::Int(seed as i128))
        .with("index", J::Int(index as i128)).with("hammer_threads", J::u(hammers)).with("config", sutcfg.to_json());
    let mut counts = Counts::default();
    let mut findings = Vec::new();
    prep(1, 0, 0, 0, false);
    let panic_mark = rt::panic_count();
    let sut = Sut::new(sutcfg);
    let marks = sut.marks;
    let mut client = Client::new(1);
    let mut current = client.token(1);
    client.write(&sut.cache, WriteOp::PutW { key: 1, value: current, weight: 10 });
    for key in 100..100 + 2 * hammers as u64 { let v = client.token(key); client.write(&sut.cache, WriteOp::PutWTtl { key, value: v, weight: 30, ttl: Duration::from_secs(10_000) }); }
    client.settle_all(&marks);
    let stop = Arc::new(AtomicBool::new(false));
    let hammered = Arc::new(AtomicU64::new(0));
    let mut crew: rt::Crew<()> = rt::Crew::new();
    for h in 0..hammers {
        let (cache, stop, hammered) = (sut.cache.clone(), stop.clone(), hammered.clone());
        crew.spawn(move || {
            rt::register_helper_thread();
            let keys = [100 + 2 * h as u64, 101 + 2 * h as u64];
            let mut n = 0u64;
            while !stop.load(Ordering::Relaxed) {
                n += 1;
                // a different time-to-live every time: the store entry is rewritten in place under the shard's write lock
                let _ = issue(&cache, &WriteOp::Upsert { key: keys[(n % 2) as usize], value: None, weight: None, ttl: Some(Duration::from_secs(10_000 + n % 1000)), remove_ttl: false });
                hammered.fetch_add(1, Ordering::Relaxed);
            }
        });
    }
    let witness_case = case.clone();
    let witness = |recs: &[&OpRec]| witness_of(&witness_case, recs);
    let rounds = 150;
    for n in 0..rounds {
        if rt::aborted() { break; }
        if n % 3 == 2 {
            // an upsert of the readable key: in place, accepted, visible when the call returns
            let value = client.token(1);
            let i = client.write(&sut.cache, WriteOp::Upsert { key: 1, value: Some(value), weight: Some(10), ttl: None, remove_ttl: false });
            let seen = sut.cache.get(&1);
            client.settle_all(&marks);
            let status = match &client.log[i].outcome { Outcome::Write { status: Some(Waited::Ready(s)), .. } => Some(*s), _ => None };
            counts.inc("upserts_of_a_readable_key_under_lock_contention");
            if status != Some(CommandStatus::Accepted) || seen != Some(value) {
                findings.push(Finding { props: vec!["C08"], signature: format!("C08/upsert-of-readable-key-not-applied/locked-shard/{}", status.map(|s| status_name(&s)).unwrap_or_else(|| "?".into())),
                    detail: format!("put_or_update of readable key 1 resolved to {:?}; a read right after the call returned {:?} instead of the new value {:#x}", status.map(|s| status_name(&s)), seen, value),
                    witness: witness(&[&client.log[i]]), inconclusive: false });
                break;
            }
            current = value;
        } else {
            let value = client.token(1);
            let op = if n % 2 == 0 { WriteOp::PutW { key: 1, value, weight: 10 } } else { WriteOp::PutWTtl { key: 1, value, weight: 34, ttl: Duration::from_secs(500) } };
            let i = client.write(&sut.cache, op);
            client.settle_all(&marks);
            let status = match &client.log[i].outcome { Outcome::Write { status: Some(Waited::Ready(s)), .. } => Some(*s), _ => None };
            let seen = sut.cache.get(&1);
            counts.inc("puts_of_a_readable_key_under_lock_contention");
            if status != Some(CommandStatus::Rejected(RejectionReason::KeyAlreadyExists)) || seen != Some(current) {
                findings.push(Finding { props: vec!["C07", "C05"], signature: format!("C07/put-on-readable-key-not-rejected/locked-shard/{}", status.map(|s| status_name(&s)).unwrap_or_else(|| "?".into())),
                    detail: format!("a put of readable key 1 resolved to {:?} and the key now reads {:?} (its value was {:#x}) while other threads kept the store shard write-locked", status.map(|s| status_name(&s)), seen, current),
                    witness: witness(&[&client.log[i]]), inconclusive: false });
                break;
            }
        }
    }
    stop.store(true, Ordering::SeqCst);
    if let Err(waited) = crew.join("the hammer threads to finish") { push_stuck(&mut findings, "hammer threads of a locked-shard case", waited, &case); }
    counts.add("in_place_rewrites_by_hammer_threads", hammered.load(Ordering::Relaxed));
    let logs = client.log.clone();
    check_ack_outcomes(&logs, false, &mut counts, &mut findings, &witness, panic_mark);
    if sut.quiesce().is_ok() && !rt::aborted() { check_quiescent_accounting(&sut, "locked-shard", &mut counts, &mut findings, case.clone()); }
    let signature = fnv_step(fnv_step(0x10C, index % 64), hammers as u64);
    let sample = case.clone().with("operations", J::Arr(logs.iter().skip(2 * hammers + 1).take(8).map(|r| r.to_json()).collect()));
    if let Err(waited) = sut.finish_or_leak() { if findings.is_empty() { push_stuck(&mut findings, "shutdown after a locked-shard case", waited, &case); } }
    counts.inc("cases");
    let nontrivial = counts.get("in_place_rewrites_by_hammer_threads") > 100;
    CaseOut { findings, counts, signature, nontrivial, sample }
}

// ------------------------------------------------------------------------------------------------ scenario: a client held in the middle of its call (C04 / C07 / C08 / C05 directed)

const CLIENT_SITES: [Site; 6] = [Site::SendAfter, Site::SendBefore, Site::DeleteAfterMark, Site::PutAfterPresenceCheck, Site::UpsertAfterStoreUpdate, Site::UpsertBeforeSend];

/// Thread T1 is held at a lock-free site in the middle of operation A on key k while another client completes
/// (awaits) operations on the same key; after release and quiescence the key must be in a coherent state:
/// accounting consistent, "reads as absent" implies "can be put", a readable key rejects a put, everything can be
/// deleted and nothing stays charged. Every fourth case instead pipelines explicit-weight upserts behind a held worker.
fn run_held_client(focus: &'static str, seed: u64, index: u64) -> CaseOut {
    let mut rng = rt::rng_for(seed, index, 0x4E1D);
    let mut counts = Counts::default();
    let mut findings = Vec::new();
    let sutcfg = SutCfg { counters: 100, capacity: 16, max_weight: 100_000, shards: 2, cmd_buf: *rng.pick(&[1usize, 4, 64]), pool: 1, buf: 2, tick: Duration::from_millis(1),
        weight_mode: if rng.chance(1, 2) { WeightMode::Default } else { WeightMode::Custom }, hash_mode: HashMode::Default, start_ns: rt::START_NS };
    let pipelined = index % 4 == 3;
    let mut sutcfg = sutcfg;
    // the burst must fit behind the held worker; every second burst is sized so that the queue is exactly FULL when its last upsert is sent
    let burst = 2 + (index / 8) % 3;
    let tight = pipelined && (index / 4) % 2 == 1;
    if pipelined { sutcfg.cmd_buf = if tight { (burst - 1) as usize } else { 64 }; }
    let site = CLIENT_SITES[((index / 4) % CLIENT_SITES.len() as u64) as usize];
    let initial = (index / 24) % 3; // 0 absent, 1 live, 2 live with a TTL
    // choose an operation that actually passes the armed site
    let initial = match site { Site::PutAfterPresenceCheck => 0, Site::UpsertBeforeSend => 1 + initial % 2, _ => initial };
    let op_a_kind = match site {
        Site::DeleteAfterMark => 0,
        Site::PutAfterPresenceCheck => 1 + rng.below(2),
        Site::UpsertAfterStoreUpdate => 3 + rng.below(3),
        Site::UpsertBeforeSend => *rng.pick(&[3u64, 5]),
        _ => if initial == 0 { *rng.pick(&[0u64, 1, 2, 3, 4]) } else { *rng.pick(&[0u64, 3, 5, 4]) },
    };
    let b_kind = rng.below(6);
    let case = J::obj().with("engine", J::s("conc")).with("scenario", J::s("held-client")).with("focus", J::s(focus)).with("seed", J::Int(seed as i128)).with("index", J::Int(index as i128))
        .with("pipelined_upserts", J::Bool(pipelined)).with("held_at", J::s(format!("{:?}", site))).with("initial_state", J::Int(initial as i128)).with("config", sutcfg.to_json());
    prep(1, 0, 0, 0, false);
    let panic_mark = rt::panic_count();
    let sut = Sut::new(sutcfg);
    let marks = sut.marks;
    let key = rng.range(1, 3);
    let mut main_client = Client::new(1);
    let ttl = Duration::from_secs(3600);
    if initial > 0 || pipelined {
        let value = main_client.token(key);
        let op = if initial == 2 { WriteOp::PutWTtl { key, value, weight: 50, ttl } } else { WriteOp::PutW { key, value, weight: 50 } };
        main_client.write(&sut.cache, op);
        main_client.settle_all(&marks);
    }
    let mut window_entered = false;
    let mut all_logs: Vec<OpRec> = Vec::new();
    let mut expected_final_weight: Option<i64> = None;
    if pipelined {
        sched().arm(Site::WorkerDequeued, 0);
        let mut dummy = Client::new(8);
        dummy.write(&sut.cache, WriteOp::Delete { key: 77 });
        if sched().wait_holding(Site::WorkerDequeued, Duration::from_secs(5)) {
            window_entered = true;
            let n = burst;
            let mut last = 50;
            let mut helper = None;
            for i in 0..n {
                // the last one asks for the weight the key had before the burst: still a change with respect to the queued one before it
                let weight = if i == n - 1 { 50 } else { 50 + 10 * (i as i64 + 1) };
                let value = main_client.token(key);
                let op = WriteOp::Upsert { key, value: if rng.chance(1, 2) { Some(value) } else { None }, weight: Some(weight), ttl: None, remove_ttl: false };
                if tight && i == n - 1 {
                    // the queue (n - 1 slots) is full now: this send has to wait for the worker, which is why another thread makes the call
                    let cache = sut.cache.clone();
                    let entered = Arc::new(AtomicBool::new(false));
                    let flag = entered.clone();
                    let mut crew: rt::Crew<Vec<OpRec>> = rt::Crew::new();
                    crew.spawn(move || { let mut client = Client::new(6); flag.store(true, Ordering::SeqCst); client.write(&cache, op); client.settle_all(&marks); client.log });
                    let _ = rt::poll_until(Duration::from_secs(2), || entered.load(Ordering::SeqCst));
                    // give the call the time to reach its send (not a verdict: released too early, the queue simply was not full)
                    thread::sleep(Duration::from_millis(2));
                    if sut.cache.verif_command_queue_len() >= (n - 1) as usize { counts.inc("weight_upserts_sent_into_an_exactly_full_queue"); }
                    helper = Some(crew);
                } else {
                    main_client.write(&sut.cache, op);
                }
                last = weight;
            }
            expected_final_weight = Some(last);
            sched().release(Site::WorkerDequeued);
            if let Some(crew) = helper {
                match crew.join("the helper sending into a full queue") {
                    Ok(logs) => for log in logs { all_logs.extend(log); },
                    Err(waited) => push_stuck(&mut findings, "a weight upsert sent into a full queue", waited, &case),
                }
            }
        }
        sched().release(Site::WorkerDequeued);
        main_client.settle_all(&marks);
        dummy.settle_all(&marks);
        all_logs.extend(dummy.log);
    } else {
        let mut held = Client::new(2);
        let value_a = held.token(key);
        let op_a = match op_a_kind {
            0 => WriteOp::Delete { key },
            1 => WriteOp::PutW { key, value: value_a, weight: 40 },
            2 => WriteOp::PutWTtl { key, value: value_a, weight: 64, ttl },
            3 => WriteOp::Upsert { key, value: Some(value_a), weight: Some(45), ttl: None, remove_ttl: false },
            4 => WriteOp::Upsert { key, value: Some(value_a), weight: None, ttl: Some(ttl), remove_ttl: false },
            _ => WriteOp::Upsert { key, value: Some(value_a), weight: Some(70), ttl: None, remove_ttl: initial == 2 },
        };
        sched().arm(site, rt::tid());
        let cache = sut.cache.clone();
        let handle = thread::spawn(move || { held.write(&cache, op_a); held.settle_all(&marks); held });
        if sched().wait_holding(site, Duration::from_millis(250)) {
            window_entered = true;
            // the other client completes whole operations on the same key while T1 is parked mid-call
            let steps: Vec<u64> = match b_kind { 0 => vec![0], 1 => vec![1], 2 => vec![2], 3 => vec![1, 0], 4 => vec![0, 1], _ => vec![0, 1, 2] };
            for step in steps {
                let value = main_client.token(key);
                let op = match step {
                    0 => WriteOp::Delete { key },
                    1 => if rng.chance(1, 2) { WriteOp::PutW { key, value, weight: 30 } } else { WriteOp::PutWTtl { key, value, weight: 54, ttl } },
                    _ => WriteOp::Upsert { key, value: Some(value), weight: Some(35), ttl: None, remove_ttl: false },
                };
                main_client.write(&sut.cache, op);
                // with a one-slot queue and T1 parked before its send this still completes: the worker is free
                main_client.settle_all(&marks);
            }
        }
        sched().release(site);
        sched().release_all();
        if let Ok(held) = handle.join() { all_logs.extend(held.log); }
    }
    if window_entered { counts.inc("held_client_windows_entered"); } else { counts.inc("window_not_entered"); }
    all_logs.extend(main_client.log.iter().cloned());
    all_logs.sort_by_key(|r| r.call);
    let witness = |recs: &[&OpRec]| witness_of(&case, recs);
    let race_logs = all_logs.clone();
    let all: Vec<&OpRec> = race_logs.iter().collect();
    check_ack_outcomes(&all_logs, false, &mut counts, &mut findings, &witness, panic_mark);
    match sut.quiesce().and_then(|_| sut.settle_fresh()) {
        Err(waited) => push_stuck(&mut findings, "quiescence after a held-client race", waited, &case),
        Ok(()) => {
            let context = if pipelined { "pipelined-upserts".to_string() } else { format!("held-client/site={:?}", site) };
            check_quiescent_accounting(&sut, &context, &mut counts, &mut findings, witness(&all));
            if let Some(expected) = expected_final_weight {
                let snapshot = sut.snapshot();
                let charged = snapshot.stored.iter().find(|e| e.0 == key).and_then(|e| sut.cache.verif_charged_weight(e.1));
                counts.inc("pipelined_upsert_bursts_checked");
                if charged != Some(expected) {
                    findings.push(Finding { props: vec!["C08", "C05", "C11"], signature: "C08/charged-weight-differs-after-pipelined-upserts".into(),
                        detail: format!("a burst of un-awaited explicit-weight upserts of key {} ended with weight {} (all acknowledged Accepted) but the key is charged {:?}", key, expected, charged),
                        witness: witness(&all), inconclusive: false });
                }
            }
            // probe: coherent final state
            let mut probe = Client::new(5);
            let seen = probe.read(&sut.cache, key, 0);
            let fresh = probe.token(key);
            probe.write(&sut.cache, WriteOp::PutW { key, value: fresh, weight: 7 });
            probe.settle_all(&marks);
            let put_status = match &probe.log.last().unwrap().outcome { Outcome::Write { status: Some(Waited::Ready(s)), .. } => Some(*s), _ => None };
            let exists = put_status == Some(CommandStatus::Rejected(RejectionReason::KeyAlreadyExists));
            counts.inc("coherence_probes");
            if seen.is_none() && exists {
                findings.push(Finding { props: vec!["C07", "C04", "C05"], signature: format!("C07/key-already-exists-for-unreadable-key/at-quiescence/{}", context),
                    detail: format!("at quiescence key {} reads as absent, yet a put is rejected with KeyAlreadyExists (the key can neither be read nor put)", key), witness: witness(&all), inconclusive: false });
            }
            if seen.is_some() && !exists {
                findings.push(Finding { props: vec!["C07"], signature: format!("C07/put-on-readable-key-not-rejected/at-quiescence/{}", context),
                    detail: format!("key {} is readable but a put resolved to {:?}", key, put_status.map(|s| status_name(&s))), witness: witness(&all), inconclusive: false });
            }
            if put_status == Some(CommandStatus::Accepted) && probe.read(&sut.cache, key, 1) != Some(fresh) {
                findings.push(Finding { props: vec!["C03", "C07"], signature: format!("C03/accepted-put-unreadable/at-quiescence/{}", context),
                    detail: format!("a put of key {} was accepted at quiescence but the value is not readable", key), witness: witness(&all), inconclusive: false });
            }
            let readable_now = probe.read(&sut.cache, key, 2).is_some();
            probe.write(&sut.cache, WriteOp::Delete { key });
            probe.settle_all(&marks);
            let delete_status = match &probe.log.last().unwrap().outcome { Outcome::Write { status: Some(Waited::Ready(s)), .. } => Some(*s), _ => None };
            if readable_now && delete_status != Some(CommandStatus::Accepted) {
                findings.push(Finding { props: vec!["C04"], signature: format!("C04/delete-of-held-key/at-quiescence/{}", context),
                    detail: format!("delete of readable key {} resolved to {:?}", key, delete_status.map(|s| status_name(&s))), witness: witness(&all), inconclusive: false });
            }
            if sut.quiesce().and_then(|_| sut.settle_fresh()).is_ok() {
                let total = sut.cache.total_weight_used();
                let held_entries = sut.snapshot().stored.len();
                if total != 0 || held_entries != 0 {
                    findings.push(Finding { props: vec!["C05", "C04"], signature: format!("C05/weight-left-after-deleting-every-key/{}", context),
                        detail: format!("after deleting the key (acknowledged) total_weight_used() is {} and {} entries are held", total, held_entries), witness: witness(&all), inconclusive: false });
                }
                counts.inc("delete_everything_checks");
            }
        }
    }
    weight_bound_findings(&mut findings, &case, "held-client");
    let signature = fnv_step(fnv_step(fnv_step(0x4E1D, index % 72), op_a_kind << 8 | b_kind), key << 4 | window_entered as u64);
    let sample = case.clone().with("operations", J::Arr(all_logs.iter().take(10).map(|r| r.to_json()).collect()));
    if let Err(waited) = sut.finish_or_leak() { if findings.is_empty() { push_stuck(&mut findings, "shutdown after a held-client race", waited, &case); } }
    counts.inc("cases");
    CaseOut { findings, counts, signature, nontrivial: window_entered, sample }
}

// ------------------------------------------------------------------------------------------------ dispatch

pub fn run(args: &Args) -> Shard {
    let focus = crate::props::static_focus(&args.str("focus", "C02"));
    let scenario = args.str("scenario", "mixed");
    let seed = args.u64("seed", 1);
    let from = args.u64("from", 0);
    let count = args.u64("count", 20);
    let stride = args.u64("stride", 1);
    let clean = args.u64("clean", 0) == 1;
    let budget = Duration::from_secs(args.u64("budget-s", 3600));
    let mut shard = Shard::new(&format!("conc-{}", scenario), focus);
    let started = Instant::now();
    let mut index = from;
    let mut done = 0;
    while done < count && started.elapsed() < budget && !rt::tainted() {
        #[cfg(feature = "typed")]
        crate::typed::begin_case(seed, index);
        let out = match scenario.as_str() {
            "mixed" => run_mixed(focus, seed, index, clean),
            "same-key" => run_same_key(focus, seed, index),
            "update-sweep" => run_update_sweep(focus, seed, index),
            "held-client" => run_held_client(focus, seed, index),
            "sweep-reput" => run_sweep_reput(focus, seed, index),
            "sweep-other-key" => run_sweep_other_key(focus, seed, index),
            "locked-shard" => run_locked_shard(focus, seed, index),
            "burst" => crate::conc2::run_burst(focus, seed, index),
            "shutdown" => crate::conc2::run_shutdown(focus, seed, index),
            "stall" => crate::conc2::run_stall(focus, seed, index),
            "stress" => crate::conc2::run_stress(focus, seed, index, args),
            "bare" => crate::conc2::run_bare(focus, seed, index, args),
            "estimate" => crate::conc2::run_estimate(focus, seed, index),
            "release" => crate::conc2::run_release(focus, seed, index),
            "fanout" => crate::conc2::run_fanout(focus, seed, index),
            "drop-backlog" => crate::conc2::run_drop_backlog(focus, seed, index),
            "held-ref" => run_held_ref(focus, seed, index),
            "idle" => crate::conc2::run_idle(focus, seed, index),
            "ack-stats" => crate::conc2::run_ack_stats(focus, seed, index),
            "slow-tick" => crate::conc2::run_slow_tick(focus, seed, index),
            other => { eprintln!("unknown scenario {}", other); std::process::exit(2); }
        };
        shard.case(out.signature, out.nontrivial);
        shard.counts.merge(&out.counts);
        if out.nontrivial { shard.sample(out.sample); }
        for finding in out.findings { shard.add_finding(finding); }
        #[cfg(feature = "typed")]
        for finding in crate::typed::end_case("conc", &scenario, focus, seed, index) { shard.add_finding(finding); }
        index += stride;
        done += 1;
    }
    #[cfg(feature = "typed")]
    crate::typed::ledger_counts(&mut shard.counts);
    if scenario != "bare" {
        let mut visits = J::obj();
        for (site, n) in sched().visit_counts() { visits.set(format!("{:?}", site), J::Int(n as i128)); }
        shard.extra = J::obj().with("site_visits", visits).with("gate_holds", J::Int(sched().gate_holds.load(Ordering::SeqCst) as i128))
            .with("gate_timeouts", J::Int(sched().gate_timeouts.load(Ordering::SeqCst) as i128))
            .with("live_threads_at_case_start", J::Int(LIVE_THREADS_AT_CASE_START.load(Ordering::SeqCst) as i128));
    }
    shard
}

#[allow(dead_code)]
fn unused() { let _ = (BTreeMap::<u8, u8>::new(), CommandKind::Put, Event::Acked { uid: 0 }, Role::Worker, RejectionReason::KeyDoesNotExist, StatsType::CacheHits); }
