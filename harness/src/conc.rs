//! C-mode (concurrent histories); filled in below.
use crate::props::Shard;
use crate::Args;

pub fn run(args: &Args) -> Shard {
    Shard::new("conc", &args.str("focus", "C02"))
}
