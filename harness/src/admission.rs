//! Independent replay of one admission decision (C06) from observations made *before* the put (charged keys, their
//! weights and estimates, the total) and the sample / victim sequence recorded by the hook events during it.
use std::collections::{BTreeSet, HashMap};

use tinylfu_cached::cache::command::{CommandStatus, RejectionReason};
use tinylfu_cached::cache::verif::Event;

use crate::sut::status_name;

#[derive(Clone, Debug)]
pub struct Charged { pub id: u64, pub key: u64, pub weight: i64, pub estimate: u8 }

#[derive(Clone, Debug)]
pub struct Decision { pub max_weight: i64, pub used_before: i64, pub weight: i64, pub incoming_estimate: u8, pub charged: Vec<Charged> }

pub struct Verdict {
    pub problems: Vec<(String, String)>,
    pub class: &'static str,
    pub evicted: Vec<u64>,
    pub evicted_keys: Vec<u64>,
    pub tie: bool,
    pub expected_used_after: i64,
}

pub fn judge(decision: &Decision, steps: &[&Event], status: CommandStatus) -> Verdict {
    let mut problems: Vec<(String, String)> = Vec::new();
    let mut bad = |signature: &str, detail: String| problems.push((signature.to_string(), detail));
    let (max_weight, weight, incoming_estimate) = (decision.max_weight, decision.weight, decision.incoming_estimate);
    let free = max_weight - decision.used_before;
    let estimate_of: HashMap<u64, u8> = decision.charged.iter().map(|c| (c.id, c.estimate)).collect();
    let weight_of: HashMap<u64, i64> = decision.charged.iter().map(|c| (c.id, c.weight)).collect();
    let key_of: HashMap<u64, u64> = decision.charged.iter().map(|c| (c.id, c.key)).collect();
    let mut evicted: Vec<u64> = Vec::new();
    let mut tie = false;
    let class;
    let mut expected_used_after = decision.used_before;
    if weight > max_weight {
        class = "over-weight";
        if status != CommandStatus::Rejected(RejectionReason::KeyWeightIsGreaterThanCacheWeight) { bad("overweight-key-not-rejected-as-overweight", format!("weight {} > cache weight {} was answered {}", weight, max_weight, status_name(&status))); }
        if !steps.is_empty() { bad("overweight-put-changed-the-cache", "an over-weight put went through eviction steps".into()); }
    } else if free >= weight {
        class = "fits";
        if status != CommandStatus::Accepted { bad("rejected-although-it-fits", format!("weight {} fits in the free space {} but the put was answered {}", weight, free, status_name(&status))); }
        if steps.iter().any(|s| matches!(s, Event::AdmissionStep { evicted: true, .. })) { bad("evicted-although-it-fits", format!("weight {} fits in the free space {} but keys were evicted", weight, free)); }
        if status == CommandStatus::Accepted { expected_used_after += weight; }
    } else {
        let mut space = free;
        let mut gone: BTreeSet<u64> = BTreeSet::new();
        let mut decided_reject = false;
        if steps.is_empty() { bad("no-admission-step-recorded", "the eviction path left no step event".into()); }
        for (n, step) in steps.iter().enumerate() {
            if let Event::AdmissionStep { sample, victim, evicted: did_evict, .. } = step {
                if space >= weight { bad("eviction-continued-although-space-suffices", format!("step {}: free space {} already covers weight {}", n, space, weight)); break; }
                let alive = decision.charged.len() - gone.len();
                let ids: BTreeSet<u64> = sample.iter().map(|s| s.0).collect();
                if ids.len() != sample.len() { bad("duplicate-in-sample", format!("step {}: sample {:?} contains a key twice", n, sample)); }
                if sample.len() != alive.min(5) { bad("sample-size-wrong", format!("step {}: sample of {} keys with {} charged keys (expected min(5, keys))", n, sample.len(), alive)); }
                for s in sample.iter() {
                    if gone.contains(&s.0) || !estimate_of.contains_key(&s.0) { bad("sample-contains-a-key-that-is-not-charged", format!("step {}: id {} is not a charged key", n, s.0)); }
                    else if estimate_of[&s.0] != s.2 || weight_of[&s.0] != s.1 { bad("sample-carries-wrong-estimate-or-weight", format!("step {}: id {} sampled as (weight {}, estimate {}) but it is (weight {}, estimate {})", n, s.0, s.1, s.2, weight_of[&s.0], estimate_of[&s.0])); }
                }
                match victim {
                    None => {
                        if !sample.is_empty() { bad("no-victim-from-a-non-empty-sample", format!("step {}: sample {:?} but no victim was taken", n, sample)); }
                        break;
                    }
                    Some((victim_id, _, _)) => {
                        let min_estimate = sample.iter().filter_map(|s| estimate_of.get(&s.0)).min().copied().unwrap_or(0);
                        let victim_estimate = estimate_of.get(victim_id).copied().unwrap_or(255);
                        if !ids.contains(victim_id) { bad("victim-not-from-the-sample", format!("step {}: victim id {} is not in the sample {:?}", n, victim_id, sample)); }
                        if victim_estimate != min_estimate { bad("victim-is-not-the-coldest-of-the-sample", format!("step {}: victim id {} has estimate {} but the sample minimum is {} (sample {:?})", n, victim_id, victim_estimate, min_estimate, sample)); }
                        if sample.iter().filter(|s| estimate_of.get(&s.0) == Some(&min_estimate)).count() > 1 { tie = true; }
                        let should_evict = victim_estimate <= incoming_estimate;
                        if *did_evict != should_evict {
                            let kind = if *did_evict { "hotter-key-evicted-by-a-colder-one" } else { "victim-spared-although-not-hotter-than-the-incoming-key" };
                            bad(kind, format!("step {}: victim estimate {} vs incoming estimate {}: evicted = {}", n, victim_estimate, incoming_estimate, did_evict));
                        }
                        if *did_evict { space += weight_of.get(victim_id).copied().unwrap_or(0); evicted.push(*victim_id); gone.insert(*victim_id); } else { decided_reject = true; break; }
                    }
                }
            }
        }
        let expect_accept = !decided_reject && space >= weight;
        if expect_accept != (status == CommandStatus::Accepted) {
            bad("outcome-differs-from-resulting-space", format!("after evicting {:?} the free space is {} for weight {}, yet the put was answered {}", evicted, space, weight, status_name(&status)));
        }
        if status != CommandStatus::Accepted && status != CommandStatus::Rejected(RejectionReason::EnoughSpaceIsNotAvailableAndKeyFailedToEvictOthers) {
            bad("wrong-rejection-reason", format!("answered {}", status_name(&status)));
        }
        expected_used_after = max_weight - space + if status == CommandStatus::Accepted { weight } else { 0 };
        class = match (evicted.len(), status == CommandStatus::Accepted) { (0, false) => "immediate-reject", (0, true) => "accept-without-victim", (1, true) => "evict-one-accept", (_, true) => "multi-victim-accept", (_, false) => "partial-evict-reject" };
    }
    let evicted_keys = evicted.iter().filter_map(|id| key_of.get(id).copied()).collect();
    Verdict { problems, class, evicted, evicted_keys, tie, expected_used_after }
}
