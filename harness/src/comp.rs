//! Component-level monitors over the `verif` wrappers: packed counters / sketch / TinyLFU (C14), the admission
//! decision (C06) and the acknowledgement protocol (C12).
use std::collections::{BTreeMap, BTreeSet, HashMap};
use std::sync::atomic::{AtomicBool, AtomicU64, Ordering};
use std::sync::{Arc, Mutex};
use std::task::Poll;
use std::thread;
use std::time::{Duration, Instant};

use tinylfu_cached::cache::command::{CommandStatus, RejectionReason};
use tinylfu_cached::cache::verif::{Event, Site, VerifAck, VerifAdmissionPolicy, VerifFrequencyCounter, VerifRow, VerifTinyLFU};

use crate::props::Shard;
use crate::rt::{self, recorder, sched, CountingWaker};
use crate::seq::Finding;
use crate::sut::status_name;
use crate::util::{fnv_step, Counts, Rng, J};
use crate::Args;

fn fail(shard: &mut Shard, props: &[&'static str], signature: String, detail: String, witness: J) {
    shard.add_finding(Finding { props: props.to_vec(), signature, detail, witness, inconclusive: false });
}


/// Runs one component case; a panic inside the code under test is a finding, not a harness crash.
fn guarded<F: FnOnce(&mut Shard)>(shard: &mut Shard, props: &[&'static str], what: &str, case: F) {
    let mark = rt::panic_count();
    let result = std::panic::catch_unwind(std::panic::AssertUnwindSafe(|| case(shard)));
    if result.is_err() {
        let site = rt::panics_since(mark).last().map(rt::panic_site).unwrap_or_else(|| "unknown".into());
        let why = rt::panics_since(mark).last().map(|p| format!("{}:{}: {}", p.file, p.line, p.message)).unwrap_or_default();
        fail(shard, props, format!("{}/panic/{}", props[0], site), format!("{} panicked: {}", what, why), J::obj().with("case", J::s(what)));
    }
}

// ------------------------------------------------------------------------------------------------ C14

/// Exhaustive over all 256 byte values x 2 nibble positions (+ neighbours in longer rows).
fn c14_bytes(shard: &mut Shard) {
    for byte in 0..=255u8 {
        for position in 0..2u64 {
            let (low, high) = (byte & 0x0f, byte >> 4);
            // get_at reads the right nibble
            let row = VerifRow::from_bytes(vec![byte]);
            let expect_get = if position == 0 { low } else { high };
            if row.get_at(position) != expect_get {
                fail(shard, &["C14"], "C14/get-at-reads-wrong-nibble".into(), format!("byte {:#04x} position {}: got {} expected {}", byte, position, row.get_at(position), expect_get), J::Null);
            }
            // increment changes only its own nibble and saturates at 15
            let mut row = VerifRow::from_bytes(vec![0xA5, byte, 0x5A]);
            row.increment_at(2 + position);
            let (mut new_low, mut new_high) = (low, high);
            if position == 0 { if low < 15 { new_low += 1; } } else if high < 15 { new_high += 1; }
            let expected = new_high << 4 | new_low;
            if row.bytes() != [0xA5, expected, 0x5A] {
                let kind = if (position == 0 && low == 15) || (position == 1 && high == 15) { "saturated-counter-changed" } else { "increment-disturbs-or-miscounts" };
                fail(shard, &["C14"], format!("C14/{}", kind), format!("byte {:#04x} increment at nibble {}: row became {:02x?}, expected middle byte {:#04x} and neighbours untouched", byte, position, row.bytes(), expected), J::Null);
            }
            // halving: floor(n / 2) per nibble
            let mut row = VerifRow::from_bytes(vec![byte, byte]);
            row.half_counters();
            let halved = (high / 2) << 4 | (low / 2);
            if row.bytes() != [halved, halved] {
                fail(shard, &["C14"], "C14/halving-wrong".into(), format!("byte {:#04x} halved to {:02x?}, expected {:#04x}", byte, row.bytes(), halved), J::Null);
            }
            let mut row = VerifRow::from_bytes(vec![byte]);
            row.clear();
            if row.bytes() != [0] { fail(shard, &["C14"], "C14/clear-wrong".into(), format!("byte {:#04x} cleared to {:02x?}", byte, row.bytes()), J::Null); }
            shard.case(fnv_step(0x14B, (byte as u64) << 1 | position), true);
            shard.counts.inc("byte_cases");
        }
    }
    shard.sample(J::obj().with("part", J::s("all 256 byte values x 2 nibble positions: get_at, increment_at (own nibble only, saturating), half_counters, clear")));
}

struct RefSketch { rows: Vec<Vec<u8>>, seeds: [u64; 4], total: u64 }

impl RefSketch {
    fn new(seeds: [u64; 4], total: u64) -> Self { RefSketch { rows: vec![vec![0; total as usize]; 4], seeds, total } }
    fn increment(&mut self, hash: u64) { for r in 0..4 { let i = ((hash ^ self.seeds[r]) % self.total) as usize; if self.rows[r][i] < 15 { self.rows[r][i] += 1; } } }
    fn estimate(&self, hash: u64) -> u8 { (0..4).map(|r| self.rows[r][((hash ^ self.seeds[r]) % self.total) as usize]).min().unwrap() }
    fn halve(&mut self) { for row in self.rows.iter_mut() { for c in row.iter_mut() { *c /= 2; } } }
}

fn hash_alphabet(rng: &mut Rng, n: usize) -> Vec<u64> {
    (0..n).map(|i| match i % 4 { 0 => rng.next(), 1 => i as u64, 2 => u64::MAX - i as u64, _ => rng.next() & 0xff }).collect()
}

/// FrequencyCounter against an unpacked reference fed the same seeds and stream, for one counter count.
fn c14_sketch(shard: &mut Shard, counters: u64, seed: u64) {
    let mut rng = Rng::new(seed ^ counters);
    let mut real = VerifFrequencyCounter::new(counters);
    let total = real.total_counters();
    let witness = J::obj().with("counters", J::Int(counters as i128)).with("total_counters", J::Int(total as i128));
    if total < counters || !total.is_power_of_two() {
        fail(shard, &["C14"], "C14/total-counters-not-a-power-of-two-at-least-counters".into(), format!("counters {} gave {} slots per row", counters, total), witness.clone());
        return;
    }
    let matrix = real.matrix();
    if matrix.len() != 4 || matrix.iter().any(|row| (row.len() as u64) < total) {
        fail(shard, &["C14", "C17"], "C14/row-shorter-than-total-counters".into(), format!("counters {}: rows of {} nibbles for {} slots", counters, matrix.get(0).map(|r| r.len()).unwrap_or(0), total), witness.clone());
        return;
    }
    let mut reference = RefSketch::new(real.seeds(), total);
    let hashes = hash_alphabet(&mut rng, 12);
    let mut saturations = 0u64;
    for step in 0..400 {
        let hash = if rng.chance(2, 3) { hashes[rng.below(3) as usize] } else { *rng.pick(&hashes) };
        real.increment(hash);
        reference.increment(hash);
        if reference.estimate(hash) == 15 { saturations += 1; }
        if step % 37 == 36 { real.reset(); reference.halve(); shard.counts.inc("sketch_resets"); }
        if step % 16 == 0 {
            for h in &hashes {
                if real.estimate(*h) != reference.estimate(*h) {
                    fail(shard, &["C14"], "C14/estimate-differs-from-reference-sketch".into(),
                         format!("counters {}: estimate({:#x}) = {} but the reference minimum is {} after {} increments", counters, h, real.estimate(*h), reference.estimate(*h), step + 1), witness.clone());
                    return;
                }
            }
        }
    }
    let got = real.matrix();
    for r in 0..4 {
        if got[r][..total as usize] != reference.rows[r][..] {
            fail(shard, &["C14"], "C14/matrix-differs-from-reference-sketch".into(), format!("counters {}: row {} differs from the reference after the stream", counters, r), witness.clone());
            return;
        }
    }
    real.clear();
    if real.matrix().iter().any(|row| row.iter().any(|c| *c != 0)) { fail(shard, &["C14"], "C14/clear-leaves-counters".into(), format!("counters {}", counters), witness.clone()); }
    shard.counts.add("saturated_estimates_seen", saturations);
    shard.counts.inc("counter_counts_covered");
    shard.case(fnv_step(0x145, counters), true);
}

/// TinyLFU: lower bound and cap within a window; reset at exactly `counters` recorded accesses, halving every
/// counter and clearing the first-access filter.
fn c14_tinylfu(shard: &mut Shard, counters: u64, seed: u64) {
    let mut rng = Rng::new(seed ^ counters.rotate_left(9));
    let mut lfu = VerifTinyLFU::new(counters);
    let witness = J::obj().with("counters", J::Int(counters as i128));
    let hashes = hash_alphabet(&mut rng, 6);
    let mut window: HashMap<u64, u64> = HashMap::new();
    let mut in_window = 0u64;
    let mut seen_in_window: BTreeSet<u64> = BTreeSet::new();
    let total_accesses = (counters * 3 + 7).min(600) + if (3..=64).contains(&counters) { 2 * counters } else { 0 };
    let mut n = 0;
    let mut distinct_left = 0u64;
    while n < total_accesses {
        // now and then a whole ageing window consists of first accesses of keys never seen before (only the first-access filter is touched):
        // the ageing at its end must still halve what earlier windows left in the sketch
        if distinct_left == 0 && in_window == 0 && n > 0 && (3..=64).contains(&counters) && rng.chance(1, 3) { distinct_left = counters; shard.counts.inc("windows_of_first_accesses_only"); }
        // single accesses and small batches, so that batches cross the reset boundary too
        let batch: Vec<u64> = if distinct_left > 0 { distinct_left -= 1; vec![rng.next() | 1] } else if rng.chance(1, 4) { (0..rng.range(2, 5)).map(|_| *rng.pick(&hashes)).collect() } else { vec![if rng.chance(1, 2) { hashes[0] } else { *rng.pick(&hashes) }] };
        let before = lfu.matrix();
        let seeds = lfu.seeds();
        let total = before[0].len() as u64;
        let mut expected = RefSketch { rows: before.clone(), seeds, total };
        let mut expected_increments = in_window;
        let mut expected_window = window.clone();
        let mut door: BTreeSet<u64> = seen_in_window.clone();
        let mut resets = 0;
        let mut filter_false_positive = false;
        for h in &batch {
            // the real filter may report a false positive; follow what it says for the first hash of the batch only when it is a single access
            let had = if door.contains(h) { true } else if batch.len() == 1 { let fp = lfu.door_keeper_has(h); filter_false_positive |= fp; fp } else { false };
            if had { expected.increment(*h); }
            door.insert(*h);
            *expected_window.entry(*h).or_insert(0) += 1;
            expected_increments += 1;
            if expected_increments >= counters {
                expected.halve();
                expected_increments = 0;
                expected_window.clear();
                door.clear();
                resets += 1;
            }
        }
        lfu.increment_access(batch.clone());
        n += batch.len() as u64;
        if lfu.total_increments() != expected_increments {
            fail(shard, &["C14"], "C14/reset-not-at-exactly-the-configured-number-of-accesses".into(),
                 format!("counters {}: after {} accesses in the window (+{}), total_increments is {} but {} was expected", counters, in_window, batch.len(), lfu.total_increments(), expected_increments), witness.clone());
            return;
        }
        if resets > 0 { shard.counts.add("tinylfu_resets", resets); }
        if resets > 0 && door.is_empty() {
            // the ageing step was the last thing that happened: the first-access filter must be empty now
            shard.counts.inc("filter_checked_right_after_ageing");
            for h in &hashes {
                if lfu.door_keeper_has(h) {
                    fail(shard, &["C14"], "C14/first-access-filter-not-cleared-at-reset".into(), format!("counters {}: hash {:#x} is still in the first-access filter right after ageing", counters, h), witness.clone());
                    return;
                }
            }
        }
        // exact matrix comparison is possible whenever the bloom filter gave no false positive inside a multi-access batch
        if batch.len() == 1 || !filter_false_positive {
            let got = lfu.matrix();
            let same = (0..4).all(|r| got[r] == expected.rows[r]);
            if !same && batch.len() == 1 {
                let kind = if resets > 0 { "ageing-does-not-halve-every-counter" } else { "sketch-differs-after-access" };
                fail(shard, &["C14"], format!("C14/{}", kind), format!("counters {}: sketch after the access of {:#x} differs from the reference (resets in this step: {})", counters, batch[0], resets), witness.clone());
                return;
            }
        }
        in_window = expected_increments;
        window = expected_window;
        seen_in_window = door;
        for h in &hashes {
            let recorded = window.get(h).copied().unwrap_or(0);
            let estimate = lfu.estimate(*h);
            if (estimate as u64) < recorded.min(15) {
                fail(shard, &["C14"], "C14/estimate-under-counts".into(), format!("counters {}: hash {:#x} was recorded {} times in this window but its estimate is {}", counters, h, recorded, estimate), witness.clone());
                return;
            }
            if estimate < lfu.sketch_estimate(*h) {
                fail(shard, &["C14"], "C14/estimate-below-the-sketch-minimum".into(), format!("counters {}: hash {:#x} has {} in every row of the sketch but its estimated frequency is {}", counters, h, lfu.sketch_estimate(*h), estimate), witness.clone());
                return;
            }
            if estimate > 16 {
                fail(shard, &["C14"], "C14/estimate-above-cap".into(), format!("counters {}: estimate {} for hash {:#x}", counters, estimate, h), witness.clone());
                return;
            }
            if estimate >= 15 { shard.counts.inc("saturated_estimates_seen"); }
        }
    }
    lfu.clear();
    if lfu.total_increments() != 0 || lfu.matrix().iter().any(|row| row.iter().any(|c| *c != 0)) {
        fail(shard, &["C14"], "C14/clear-leaves-state".into(), format!("counters {}", counters), witness.clone());
    }
    shard.counts.inc("tinylfu_streams");
    shard.case(fnv_step(0x147, counters ^ seed << 20), true);
}

/// A window far larger than any internal table: 200 000 counters, 70 000 distinct hashes recorded once each (no ageing can happen), then
/// every one of them must still be known to the first-access filter and carry an estimate of at least one.
fn c14_many_first_accesses(shard: &mut Shard, seed: u64) {
    let mut rng = Rng::new(seed ^ 0x70_000);
    let mut lfu = VerifTinyLFU::new(200_000);
    let hashes: Vec<u64> = (0..70_000).map(|_| rng.next() | 1).collect();
    for chunk in hashes.chunks(500) { lfu.increment_access(chunk.to_vec()); }
    let witness = J::obj().with("counters", J::Int(200_000)).with("distinct_first_accesses", J::Int(70_000));
    if lfu.total_increments() != 70_000 {
        fail(shard, &["C14"], "C14/reset-not-at-exactly-the-configured-number-of-accesses".into(), format!("70000 accesses into a window of 200000: total_increments is {}", lfu.total_increments()), witness.clone());
        return;
    }
    let forgotten = hashes.iter().filter(|h| lfu.estimate(**h) == 0).count();
    if forgotten > 0 {
        fail(shard, &["C14"], "C14/estimate-under-counts/many-first-accesses".into(), format!("{} of 70000 hashes recorded once in the current window (200000 counters, no ageing yet) have estimate 0", forgotten), witness);
        return;
    }
    shard.counts.inc("windows_with_70000_first_accesses");
    shard.case(fnv_step(0x14F, seed), true);
}

fn run_c14(args: &Args, shard: &mut Shard) {
    let seed = args.u64("seed", 1);
    let from = args.u64("from", 0);
    let stride = args.u64("stride", 1);
    let count = args.u64("count", 10);
    if from == 0 { guarded(shard, &["C14", "C17"], "packed-row byte cases", |shard| c14_bytes(shard)); }
    if from == 1 { guarded(shard, &["C14", "C17"], "70000 first accesses in one window", |shard| c14_many_first_accesses(shard, seed)); }
    // every counter count 1..=130 is covered across the shards, plus random larger ones (non-powers of two included)
    let mut c = 1 + from;
    while c <= 130 {
        guarded(shard, &["C14", "C17"], &format!("sketch with {} counters", c), |shard| c14_sketch(shard, c, seed));
        guarded(shard, &["C14", "C17"], &format!("TinyLFU with {} counters", c), |shard| c14_tinylfu(shard, c, seed));
        c += stride;
    }
    let mut rng = rt::rng_for(seed, from, 0x14);
    for _ in 0..count {
        let big = match rng.below(4) { 0 => rng.range(131, 5000), 1 => (1u64 << rng.range(8, 16)) + rng.range(0, 2) - 1, 2 => rng.range(5000, 70_000), _ => rng.range(131, 1000) };
        let (seed_a, seed_b) = (rng.next(), rng.next());
        guarded(shard, &["C14", "C17"], &format!("sketch with {} counters", big), |shard| c14_sketch(shard, big, seed_a));
        if big <= 3000 { guarded(shard, &["C14", "C17"], &format!("TinyLFU with {} counters", big), |shard| c14_tinylfu(shard, big, seed_b)); }
    }
    shard.sample(J::obj().with("part", J::s("FrequencyCounter / TinyLFU against an unpacked reference sketch fed the same row seeds and access stream")).with("counter_counts", J::s("1..=130 and random larger")));
}

// ------------------------------------------------------------------------------------------------ C06

fn drain_accesses(policy: &VerifAdmissionPolicy, applied_base: u64) -> bool {
    let started = Instant::now();
    loop {
        let added = policy.access_added();
        let applied = recorder().applied.load(Ordering::SeqCst) - applied_base;
        if policy.access_queue_len() == 0 && applied >= added { return true; }
        if started.elapsed() > Duration::from_secs(20) { return false; }
        thread::yield_now();
    }
}

fn c06_case(shard: &mut Shard, seed: u64, index: u64) {
    let mut rng = rt::rng_for(seed, index, 0xC06);
    let r = recorder();
    r.keep.store(true, Ordering::SeqCst);
    let _ = r.take_events();
    let _ = r.take_weight_violations();
    sched().quiet();
    let max_weight = *rng.pick(&[10i64, 50, 100, 100, 1000]);
    let counters = *rng.pick(&[16u64, 64, 1024]);
    let applied_base = r.applied.load(Ordering::SeqCst);
    r.weight_last.store(0, Ordering::SeqCst);
    // `capacity` is a sizing hint for the maps, not a bound on the number of keys: decisions that need more evictions than it are drawn too
    let capacity = *rng.pick(&[1usize, 2, 4, 16]);
    let policy = VerifAdmissionPolicy::new(counters, capacity, 2, max_weight);
    // one decision in 150 starts from well over a thousand light residents and needs (nearly) all of them evicted
    let crowd = rng.chance(1, 150);
    let max_weight = if crowd { 1500 } else { max_weight };
    let policy = if crowd { policy.shutdown(); VerifAdmissionPolicy::new(counters, capacity, 2, max_weight) } else { policy };
    let n_existing = if crowd { 1500 } else if capacity < 16 && rng.chance(1, 2) { rng.range(5, 9) } else { rng.range(0, 9) };
    let constant_hash = rng.chance(1, 6);
    let hash_of = |key: u64| if constant_hash { 42 } else { key.wrapping_mul(0x9E37_79B9_7F4A_7C15) ^ seed };
    let mut next_id = 1u64;
    let mut setup = J::arr();
    // existing keys: fill without pressure
    for key in 1..=n_existing {
        let weight = if crowd { 1 } else { match rng.below(4) { 0 => 1, 1 => (max_weight / 4).max(1), _ => rng.range(1, (max_weight as u64 / 3).max(1)) as i64 } };
        if policy.weight_used() + weight > max_weight { break; }
        let status = policy.maybe_add(key, next_id, hash_of(key), weight, &|_k| {});
        if status != CommandStatus::Accepted {
            fail(shard, &["C06"], "C06/rejected-although-it-fits".into(), format!("setup put of weight {} with {} of {} used was answered {}", weight, policy.weight_used(), max_weight, status_name(&status)), J::Null);
        }
        next_id += 1;
        // frequency profile set directly: 0..20 accesses (saturation at 15/16), ties on purpose
        let accesses = if crowd { 0 } else { *rng.pick(&[0u64, 0, 1, 1, 2, 3, 3, 5, 15, 16, 20]) };
        if accesses > 0 { for _ in 0..accesses { policy.accept(vec![hash_of(key)]); if !drain_accesses(&policy, applied_base) { break; } } }
        setup.push(J::obj().with("key", J::Int(key as i128)).with("weight", J::Int(weight as i128)).with("accesses", J::Int(accesses as i128)));
    }
    let incoming_key = 100;
    let incoming_accesses = *rng.pick(&[0u64, 0, 1, 2, 3, 5, 15, 20]);
    for _ in 0..incoming_accesses { policy.accept(vec![hash_of(incoming_key)]); if !drain_accesses(&policy, applied_base) { break; } }
    if !drain_accesses(&policy, applied_base) {
        shard.add_finding(Finding { props: vec!["C06"], signature: "inconclusive/c06-drain".into(), detail: "access queue did not drain".into(), witness: J::Null, inconclusive: true });
        policy.shutdown();
        return;
    }
    // now and then the cache is over-full when the decision starts (a weight update is not admission-checked): the decision
    // rule is the same, it just starts from a negative amount of free space
    let over_full = n_existing > 0 && rng.chance(1, 5);
    if over_full {
        let victim = rng.range(1, next_id - 1);
        if let Some(old) = policy.weight_of(victim) { policy.update(victim, old + (max_weight - policy.weight_used()).max(0) + rng.range(1, (max_weight as u64 / 2).max(1)) as i64); }
        let _ = r.take_weight_violations();
    }
    let _ = r.take_events();
    let free = max_weight - policy.weight_used();
    if crowd { shard.counts.inc("decisions_among_more_than_a_thousand_residents"); }
    let weight = if crowd { *rng.pick(&[max_weight, max_weight - 100, 1200]) } else { match rng.below(8) { 0 => free.max(1), 1 => (free + 1).max(1), 2 => (free - 1).max(1), 3 => max_weight, 4 => max_weight + 1, 5 => 1, 6 => i64::MAX / 2, _ => rng.range(1, max_weight as u64) as i64 } };
    // independent observation before the decision: charged keys, their estimates, the total
    let charged_before = policy.charged();
    let used_before = policy.weight_used();
    let estimate_of: HashMap<u64, u8> = charged_before.iter().map(|(id, _, hash, _)| (*id, policy.estimate(*hash))).collect();
    let weight_of: HashMap<u64, i64> = charged_before.iter().map(|(id, _, _, w)| (*id, *w)).collect();
    let key_of: HashMap<u64, u64> = charged_before.iter().map(|(id, k, _, _)| (*id, *k)).collect();
    let incoming_estimate = policy.estimate(hash_of(incoming_key));
    let victims_hooked: Arc<Mutex<Vec<u64>>> = Arc::new(Mutex::new(Vec::new()));
    let hook_log = victims_hooked.clone();
    let incoming_id = next_id;
    let status = policy.maybe_add(incoming_key, incoming_id, hash_of(incoming_key), weight, &move |key| hook_log.lock().unwrap().push(key));
    let events = r.take_events();
    let witness = J::obj().with("engine", J::s("comp")).with("scenario", J::s("c06")).with("seed", J::Int(seed as i128)).with("index", J::Int(index as i128))
        .with("max_weight", J::Int(max_weight as i128)).with("existing", setup).with("incoming", J::obj().with("weight", J::Int(weight as i128)).with("accesses", J::Int(incoming_accesses as i128)).with("estimate", J::Int(incoming_estimate as i128)))
        .with("used_before", J::Int(used_before as i128)).with("status", J::s(status_name(&status)))
        .with("estimates", J::Arr(charged_before.iter().map(|(id, k, _, w)| J::obj().with("id", J::Int(*id as i128)).with("key", J::Int(*k as i128)).with("weight", J::Int(*w as i128)).with("estimate", J::Int(estimate_of[id] as i128))).collect()));
    let hooked = victims_hooked.lock().unwrap().clone();
    let charged_after: BTreeMap<u64, i64> = policy.charged().iter().map(|(id, _, _, w)| (*id, *w)).collect();
    let used_after = policy.weight_used();
    let mut class = "";
    let mut bad = |shard: &mut Shard, signature: &str, detail: String| fail(shard, &["C06"], format!("C06/{}", signature), detail, witness.clone());
    if weight > max_weight {
        class = "over-weight";
        if status != CommandStatus::Rejected(RejectionReason::KeyWeightIsGreaterThanCacheWeight) { bad(shard, "overweight-key-not-rejected-as-overweight", format!("weight {} > cache weight {} was answered {}", weight, max_weight, status_name(&status))); }
        if !hooked.is_empty() || used_after != used_before || charged_after.len() != charged_before.len() { bad(shard, "overweight-put-changed-the-cache", format!("an over-weight put evicted {:?} / changed the total from {} to {}", hooked, used_before, used_after)); }
    } else if free >= weight {
        class = "fits";
        if status != CommandStatus::Accepted { bad(shard, "rejected-although-it-fits", format!("weight {} fits in the free space {} but the put was answered {}", weight, free, status_name(&status))); }
        if !hooked.is_empty() { bad(shard, "evicted-although-it-fits", format!("weight {} fits in the free space {} but {:?} were evicted", weight, free, hooked)); }
        if status == CommandStatus::Accepted && used_after != used_before + weight { bad(shard, "total-wrong-after-fitting-put", format!("total went from {} to {} for weight {}", used_before, used_after, weight)); }
    } else {
        // eviction path: replay the decision from the recorded samples with our own estimates
        let mut space = free;
        let mut evicted: Vec<u64> = Vec::new();
        let mut gone: BTreeSet<u64> = BTreeSet::new();
        let mut decided_reject = false;
        let mut ran_dry = false;
        let steps: Vec<&Event> = events.iter().map(|e| &e.event).filter(|e| matches!(e, Event::AdmissionStep { .. })).collect();
        if steps.is_empty() { bad(shard, "no-admission-step-recorded", "the eviction path left no step event".into()); }
        for (n, step) in steps.iter().enumerate() {
            if let Event::AdmissionStep { sample, victim, evicted: did_evict, .. } = step {
                if space >= weight { bad(shard, "eviction-continued-although-space-suffices", format!("step {}: free space {} already covers weight {}", n, space, weight)); break; }
                let alive = charged_before.len() - gone.len();
                let ids: BTreeSet<u64> = sample.iter().map(|s| s.0).collect();
                if ids.len() != sample.len() { bad(shard, "duplicate-in-sample", format!("step {}: sample {:?} contains a key twice", n, sample)); }
                if sample.len() != alive.min(5) { bad(shard, "sample-size-wrong", format!("step {}: sample of {} keys with {} charged keys (expected min(5, keys))", n, sample.len(), alive)); }
                for s in sample.iter() {
                    if gone.contains(&s.0) || !estimate_of.contains_key(&s.0) { bad(shard, "sample-contains-a-key-that-is-not-charged", format!("step {}: id {} is not a charged key", n, s.0)); }
                    else if estimate_of[&s.0] != s.2 || weight_of[&s.0] != s.1 { bad(shard, "sample-carries-wrong-estimate-or-weight", format!("step {}: id {} sampled as (weight {}, estimate {}) but it is (weight {}, estimate {})", n, s.0, s.1, s.2, weight_of[&s.0], estimate_of[&s.0])); }
                }
                match victim {
                    None => {
                        if !sample.is_empty() { bad(shard, "no-victim-from-a-non-empty-sample", format!("step {}: sample {:?} but no victim was taken", n, sample)); }
                        ran_dry = true;
                        break;
                    }
                    Some((victim_id, _, _)) => {
                        let min_estimate = sample.iter().filter_map(|s| estimate_of.get(&s.0)).min().copied().unwrap_or(0);
                        let victim_estimate = estimate_of.get(victim_id).copied().unwrap_or(255);
                        if !ids.contains(victim_id) { bad(shard, "victim-not-from-the-sample", format!("step {}: victim id {} is not in the sample {:?}", n, victim_id, sample)); }
                        if victim_estimate != min_estimate { bad(shard, "victim-is-not-the-coldest-of-the-sample", format!("step {}: victim id {} has estimate {} but the sample minimum is {} (sample {:?})", n, victim_id, victim_estimate, min_estimate, sample)); }
                        let ties = sample.iter().filter(|s| estimate_of.get(&s.0) == Some(&min_estimate)).count();
                        if ties > 1 { shard.counts.inc("decisions_with_a_tie_for_the_coldest_key"); }
                        let should_evict = victim_estimate <= incoming_estimate;
                        if *did_evict != should_evict {
                            let kind = if *did_evict { "hotter-key-evicted-by-a-colder-one" } else { "victim-spared-although-not-hotter-than-the-incoming-key" };
                            bad(shard, kind, format!("step {}: victim estimate {} vs incoming estimate {}: evicted = {}", n, victim_estimate, incoming_estimate, did_evict));
                        }
                        if *did_evict { space += weight_of.get(victim_id).copied().unwrap_or(0); evicted.push(*victim_id); gone.insert(*victim_id); } else { decided_reject = true; break; }
                    }
                }
            }
        }
        let expected_keys: Vec<u64> = evicted.iter().filter_map(|id| key_of.get(id).copied()).collect();
        if hooked != expected_keys { bad(shard, "delete-hook-calls-differ-from-victims", format!("victims (by key) {:?} but the delete hook was called for {:?}", expected_keys, hooked)); }
        // evicting stops for one of three reasons only: enough space, a victim hotter than the incoming key, or nothing left to sample
        if !decided_reject && !ran_dry && space < weight && !steps.is_empty() && charged_before.len() > gone.len() && status != CommandStatus::Accepted {
            bad(shard, "eviction-stopped-although-victims-remained", format!("after evicting {:?} the free space is {} for weight {}; {} charged keys remain, none was compared with the incoming key, yet the put was answered {}", evicted, space, weight, charged_before.len() - gone.len(), status_name(&status)));
        }
        let expect_accept = !decided_reject && space >= weight;
        if expect_accept != (status == CommandStatus::Accepted) {
            bad(shard, "outcome-differs-from-resulting-space", format!("after evicting {:?} the free space is {} for weight {}, yet the put was answered {}", evicted, space, weight, status_name(&status)));
        }
        if status != CommandStatus::Accepted && status != CommandStatus::Rejected(RejectionReason::EnoughSpaceIsNotAvailableAndKeyFailedToEvictOthers) {
            bad(shard, "wrong-rejection-reason", format!("answered {}", status_name(&status)));
        }
        let expected_used = max_weight - space + if status == CommandStatus::Accepted { weight } else { 0 };
        if used_after != expected_used { bad(shard, "total-wrong-after-eviction", format!("total is {} but {} was expected (evicted {:?}, status {})", used_after, expected_used, evicted, status_name(&status))); }
        for id in &evicted { if charged_after.contains_key(id) { bad(shard, "victim-still-charged", format!("victim id {} is still charged", id)); } }
        class = match (evicted.len(), status == CommandStatus::Accepted) { (0, false) => "immediate-reject", (0, true) => "accept-without-victim", (1, true) => "evict-one-accept", (_, true) => "multi-victim-accept", (_, false) => "partial-evict-reject" };
        shard.counts.inc(format!("sample_size:{}", steps.first().map(|s| if let Event::AdmissionStep { sample, .. } = s { sample.len() } else { 0 }).unwrap_or(0)));
    }
    if status == CommandStatus::Accepted && !charged_after.contains_key(&incoming_id) { bad(shard, "accepted-key-not-charged", "the accepted key is not charged".into()); }
    if status != CommandStatus::Accepted && charged_after.contains_key(&incoming_id) { bad(shard, "rejected-key-charged", "the rejected key is charged".into()); }
    if used_before <= max_weight && (used_after < 0 || used_after > max_weight) { fail(shard, &["C01", "C06"], "C01/total-outside-bounds/admission".into(), format!("total {} with limit {}", used_after, max_weight), witness.clone()); }
    if over_full { shard.counts.inc("decisions_starting_from_an_over_full_cache"); }
    for (site, id, total, max) in r.take_weight_violations() { fail(shard, &["C01"], format!("C01/total-outside-bounds/site={}/admission", site), format!("total {} (limit {}) at key id {}", total, max, id), witness.clone()); }
    shard.counts.inc(format!("decisions:{}", class));
    let signature = fnv_step(fnv_step(fnv_step(0xC06, crate::util::fnv(class.as_bytes())), n_existing << 8 | incoming_estimate as u64), hooked.len() as u64);
    shard.case(signature, class != "fits" || n_existing > 0);
    if class != "fits" { shard.sample(witness.clone()); }
    policy.shutdown();
}

// ------------------------------------------------------------------------------------------------ C12

const STATUSES: [CommandStatus; 3] = [CommandStatus::Accepted, CommandStatus::Rejected(RejectionReason::KeyDoesNotExist), CommandStatus::ShuttingDown];

struct PollObs { gap: usize, waker: usize, result: Poll<CommandStatus> }

/// One placement of 1-3 sequential polls into the gaps of done(): 0 = before, 1 = between the two stores,
/// 2 = before the wake, 3 = after done() returned. `fresh` bit i: poll i uses a new waker.
fn c12_directed_case(shard: &mut Shard, status: CommandStatus, gaps: &[usize], fresh: u32) {
    sched().quiet();
    sched().release_all();
    let ack = Arc::new(VerifAck::new());
    let mut wakers: Vec<Arc<CountingWaker>> = vec![CountingWaker::new()];
    let mut observations: Vec<PollObs> = Vec::new();
    let mut poll_in_gap = |gap: usize, observations: &mut Vec<PollObs>, wakers: &mut Vec<Arc<CountingWaker>>| {
        for (i, g) in gaps.iter().enumerate() {
            if *g != gap { continue; }
            if i > 0 && fresh & (1 << i) != 0 { wakers.push(CountingWaker::new()); }
            let waker_index = wakers.len() - 1;
            let result = rt::poll_once(ack.handle(), &wakers[waker_index]);
            observations.push(PollObs { gap, waker: waker_index, result });
        }
    };
    poll_in_gap(0, &mut observations, &mut wakers);
    sched().arm(Site::AckDoneBetweenStores, rt::tid());
    let completer_ack = ack.clone();
    let completer = thread::spawn(move || completer_ack.done(status));
    let mut entered = [true, false, false, true];
    if sched().wait_holding(Site::AckDoneBetweenStores, Duration::from_secs(5)) {
        entered[1] = true;
        poll_in_gap(1, &mut observations, &mut wakers);
        sched().arm(Site::AckDoneBeforeWake, rt::tid());
        sched().release(Site::AckDoneBetweenStores);
        if sched().wait_holding(Site::AckDoneBeforeWake, Duration::from_secs(5)) {
            entered[2] = true;
            poll_in_gap(2, &mut observations, &mut wakers);
        }
        sched().release(Site::AckDoneBeforeWake);
    }
    sched().release_all();
    let _ = completer.join();
    poll_in_gap(3, &mut observations, &mut wakers);
    // a final poll after completion, like an executor would do after the wake
    let final_result = rt::poll_once(ack.handle(), wakers.last().unwrap());
    let witness = J::obj().with("engine", J::s("comp")).with("scenario", J::s("c12-directed")).with("status", J::s(status_name(&status)))
        .with("polls_in_gaps", J::Arr(gaps.iter().map(|g| J::Int(*g as i128)).collect())).with("fresh_waker_mask", J::Int(fresh as i128))
        .with("observed", J::Arr(observations.iter().map(|o| J::s(format!("gap{} waker{} -> {:?}", o.gap, o.waker, o.result))).collect()));
    let mut ready_seen: Option<CommandStatus> = None;
    let mut last_pending_waker: Option<usize> = None;
    for o in observations.iter() {
        shard.counts.inc(format!("polls_inside_gap_{}", o.gap));
        match o.result {
            Poll::Ready(CommandStatus::Pending) => fail(shard, &["C12"], format!("C12/ready-pending/gap={}", o.gap), format!("a poll placed in gap {} of done() returned Ready(Pending)", o.gap), witness.clone()),
            Poll::Ready(s) => {
                if s != status { fail(shard, &["C12"], "C12/ready-with-a-different-status".into(), format!("poll returned {} but done() was given {}", status_name(&s), status_name(&status)), witness.clone()); }
                if let Some(previous) = ready_seen { if previous != s { fail(shard, &["C12"], "C12/status-changed-between-polls".into(), format!("{} then {}", status_name(&previous), status_name(&s)), witness.clone()); } }
                ready_seen = Some(s);
            }
            Poll::Pending => {
                if ready_seen.is_some() { fail(shard, &["C12"], "C12/pending-after-ready".into(), "a poll returned Pending after an earlier poll had returned Ready".into(), witness.clone()); }
                if o.gap == 3 { fail(shard, &["C12"], "C12/pending-after-done-returned".into(), "a poll made after done() returned is still Pending".into(), witness.clone()); }
                last_pending_waker = Some(o.waker);
            }
        }
    }
    match final_result {
        Poll::Ready(s) if s == status => {}
        other => fail(shard, &["C12"], "C12/final-poll-not-ready-with-the-real-status".into(), format!("after done({}) returned a poll gave {:?}", status_name(&status), other), witness.clone()),
    }
    let last_was_pending = matches!(observations.last().map(|o| &o.result), Some(Poll::Pending));
    if let (Some(index), true) = (last_pending_waker, last_was_pending) {
        shard.counts.inc("wake_obligations_checked");
        if wakers[index].count() == 0 {
            fail(shard, &["C12"], "C12/last-pending-poller-never-woken".into(), format!("the waker registered by the last Pending poll (waker {}) was never woken although done() returned", index), witness.clone());
        }
    }
    if !entered[1] || !entered[2] { shard.counts.inc("directed_windows_not_entered"); }
    let mut signature = fnv_step(0xC12, fresh as u64);
    for g in gaps { signature = fnv_step(signature, *g as u64); }
    signature = fnv_step(signature, crate::util::fnv(status_name(&status).as_bytes()));
    shard.case(signature, true);
    if gaps.len() == 3 && fresh == 2 { shard.sample(witness); }
}

fn c12_directed(shard: &mut Shard) {
    let mut placements: Vec<Vec<usize>> = Vec::new();
    for a in 0..4 { placements.push(vec![a]); for b in a..4 { placements.push(vec![a, b]); for c in b..4 { placements.push(vec![a, b, c]); } } }
    for status in STATUSES {
        for gaps in &placements {
            for fresh in 0..(1u32 << (gaps.len() - 1)) { c12_directed_case(shard, status, gaps, fresh << 1); }
        }
    }
    shard.counts.add("placements_enumerated", (placements.len() * 3) as u64);
}

/// Free-running: a poller spins (changing its waker now and then) while a completer calls done() with random
/// delays at the sites between done()'s steps and inside poll().
fn c12_stress(shard: &mut Shard, seed: u64, index: u64, rounds: u64) {
    let mut rng = rt::rng_for(seed, index, 0xC12);
    sched().release_all();
    sched().set_random(rng.next(), 150, 150, 30);
    sched().quiet_mask.store(0, Ordering::SeqCst);
    for round in 0..rounds {
        let status = STATUSES[(round % 3) as usize];
        let ack = Arc::new(VerifAck::new());
        let pollers = 1 + (round % 2) as usize; // a second task polling the same handle steals the waker slot: only the last poller must be woken
        let stop = Arc::new(AtomicBool::new(false));
        let completed = Arc::new(AtomicU64::new(0));
        let mut handles = Vec::new();
        for p in 0..pollers {
            let (ack, stop, completed) = (ack.clone(), stop.clone(), completed.clone());
            let pollers_total = pollers;
            let mut rng = rt::rng_for(seed, index * 1000 + round, p as u64);
            handles.push(thread::spawn(move || {
                // behaves like an executor task: poll; on Pending wait for *this* waker to fire (sometimes re-poll
                // spuriously, sometimes with a new waker); a wake that never comes although done() returned is a lost wake-up
                let mut waker = CountingWaker::new();
                let mut ready: Option<CommandStatus> = None;
                let mut problems: Vec<String> = Vec::new();
                let mut polls = 0u64;
                let mut waits = 0u64;
                loop {
                    if rng.chance(1, 5) { waker = CountingWaker::new(); }
                    let done_before_poll = completed.load(Ordering::SeqCst) == 1;
                    let seen = waker.count();
                    let result = rt::poll_once(ack.handle(), &waker);
                    polls += 1;
                    match result {
                        Poll::Ready(CommandStatus::Pending) => { problems.push("ready-pending".into()); break; }
                        Poll::Ready(s) => {
                            if let Some(prev) = ready { if prev != s { problems.push("status-changed-between-polls".into()); } }
                            ready = Some(s);
                            if polls > 3 && stop.load(Ordering::Relaxed) { break; }
                            if rng.chance(1, 2) { break; }
                        }
                        Poll::Pending => {
                            if ready.is_some() { problems.push("pending-after-ready".into()); break; }
                            if done_before_poll { problems.push("pending-after-done-returned".into()); break; }
                            if rng.chance(1, 3) { continue; } // spurious re-poll
                            waits += 1;
                            let mut lost = false;
                            while waker.count() == seen {
                                if completed.load(Ordering::SeqCst) == 1 {
                                    // done() has returned; wake_by_ref happens inside done(): the wake must be visible now
                                    if waker.count() == seen { lost = true; }
                                    break;
                                }
                                std::hint::spin_loop();
                            }
                            if lost && pollers_total == 1 { problems.push("last-pending-poller-never-woken".into()); break; }
                            if lost { break; } // with two tasks sharing the handle only the most recent poller is owed a wake
                        }
                    }
                    if polls > 200_000 { break; }
                }
                (ready, problems, polls, waits)
            }));
        }
        thread::sleep(Duration::from_micros(rng.range(0, 300)));
        ack.done(status);
        completed.store(1, Ordering::SeqCst);
        thread::sleep(Duration::from_micros(50));
        stop.store(true, Ordering::SeqCst);
        let witness = J::obj().with("engine", J::s("comp")).with("scenario", J::s("c12-stress")).with("seed", J::Int(seed as i128)).with("index", J::Int(index as i128)).with("round", J::Int(round as i128)).with("status", J::s(status_name(&status)));
        for handle in handles {
            if let Ok((ready, problems, polls, waits)) = handle.join() {
                shard.counts.add("stress_polls", polls);
                shard.counts.add("wake_obligations_checked", waits);
                let lost = problems.iter().any(|p| p == "last-pending-poller-never-woken");
                for p in problems { fail(shard, &["C12"], format!("C12/{}", p), format!("free-running poller vs done({})", status_name(&status)), witness.clone()); }
                if pollers == 1 && !lost {
                    match ready { Some(s) if s == status => {}, other => fail(shard, &["C12"], "C12/final-poll-not-ready-with-the-real-status".into(), format!("poller ended with {:?}, done() was given {}", other, status_name(&status)), witness.clone()) }
                }
            }
        }
        shard.case(fnv_step(fnv_step(0xC125, index), round), true);
    }
    sched().quiet();
}


/// Busy polling at full speed: one long-lived completer and one long-lived poller hand acknowledgements to each other (no thread is
/// spawned per round and no delay is injected, so tens of thousands of `done()` calls race a tight poll loop per second). The poller never
/// parks: it polls until Ready, and then twice more. Refuted by Ready(Pending), a Ready that differs from what done() was given, or a later
/// poll that disagrees. This reaches windows inside poll() that no schedule site separates (two adjacent loads) by sheer repetition.
fn c12_busy(shard: &mut Shard, seed: u64, index: u64, rounds: u64) {
    sched().release_all();
    sched().quiet();
    let slot: Arc<Mutex<Option<(Arc<VerifAck>, CommandStatus)>>> = Arc::new(Mutex::new(None));
    let published = Arc::new(AtomicU64::new(0));
    let consumed = Arc::new(AtomicU64::new(0));
    let poller = {
        let (slot, published, consumed) = (slot.clone(), published.clone(), consumed.clone());
        thread::spawn(move || {
            let waker = CountingWaker::new();
            let mut problems: Vec<(u64, String)> = Vec::new();
            let mut polls = 0u64;
            let mut pending_polls = 0u64;
            for round in 1..=rounds {
                while published.load(Ordering::Acquire) < round { std::hint::spin_loop(); }
                let (ack, expected) = slot.lock().unwrap().clone().unwrap();
                let first = loop {
                    polls += 1;
                    match rt::poll_once(ack.handle(), &waker) { Poll::Ready(s) => break s, Poll::Pending => { pending_polls += 1; } }
                    if polls > rounds * 1_000_000 { break CommandStatus::Pending; }
                };
                if first == CommandStatus::Pending { problems.push((round, "ready-pending".into())); }
                else if first != expected { problems.push((round, format!("ready-with-{}-but-done-was-given-{}", status_name(&first), status_name(&expected)))); }
                for _ in 0..2 {
                    polls += 1;
                    match rt::poll_once(ack.handle(), &waker) {
                        Poll::Ready(s) if s == expected => {}
                        Poll::Ready(s) => { if first == expected { problems.push((round, format!("status-changed-between-polls-to-{}", status_name(&s)))); } }
                        Poll::Pending => problems.push((round, "pending-after-ready".into())),
                    }
                }
                consumed.store(round, Ordering::Release);
                if problems.len() > 20 { for r in round + 1..=rounds { let _ = r; } break; }
            }
            consumed.store(rounds, Ordering::Release);
            (problems, polls, pending_polls)
        })
    };
    let mut rng = rt::rng_for(seed, index, 0xB5);
    for round in 1..=rounds {
        let status = STATUSES[(round % 3) as usize];
        let ack = Arc::new(VerifAck::new());
        *slot.lock().unwrap() = Some((ack.clone(), status));
        published.store(round, Ordering::Release);
        for _ in 0..rng.below(120) { std::hint::spin_loop(); }
        ack.done(status);
        while consumed.load(Ordering::Acquire) < round { std::hint::spin_loop(); }
        if consumed.load(Ordering::Acquire) >= rounds { break; }
    }
    published.store(rounds, Ordering::Release);
    if let Ok((problems, polls, pending_polls)) = poller.join() {
        shard.counts.add("busy_polls", polls);
        shard.counts.add("busy_polls_that_were_pending", pending_polls);
        shard.counts.add("acknowledgements_busy_polled", rounds);
        for (round, p) in problems.into_iter().take(5) {
            let witness = J::obj().with("engine", J::s("comp")).with("scenario", J::s("c12-busy")).with("seed", J::Int(seed as i128)).with("index", J::Int(index as i128)).with("round", J::Int(round as i128));
            let signature = if p.starts_with("ready-with") { "C12/ready-with-a-status-done-was-not-given/busy".to_string() } else if p.starts_with("status-changed") { "C12/status-changed-between-polls/busy".to_string() } else { format!("C12/{}/busy", p) };
            fail(shard, &["C12"], signature, format!("tight poll loop vs done(): {} in round {}", p, round), witness);
        }
    }
    shard.case(fnv_step(0xB5, index), true);
}

/// Ack protocol under an interpreter that preempts at individual memory accesses (Miri many-seeds): one
/// completer thread, one executor-like poller, no harness hooks installed. `variant` picks the status and
/// whether the poller changes its waker.
fn c12_miri(shard: &mut Shard, variant: u64) {
    let status = STATUSES[(variant % 3) as usize];
    let change_waker = variant / 3 % 2 == 1;
    let spinning = variant / 6 % 4 != 3; // an executor that re-polls spuriously instead of waiting for its wake (3 of 4 variants)
    // phase sweep: the interpreter alternates threads almost deterministically, so the relative offset of the
    // poller's flag check inside done() is swept explicitly with dummy work of variant-dependent length
    let (delay_poller, delay_completer) = (0u64, (variant / 24) * 7 + (variant % 7));
    let ack = Arc::new(VerifAck::new());
    let completer_ack = ack.clone();
    let done_returned = Arc::new(AtomicBool::new(false));
    let flag = done_returned.clone();
    // the completer starts its done() only once the poller is about to poll, so that the two really overlap
    let go = Arc::new(AtomicBool::new(false));
    let go_completer = go.clone();
    let completer = thread::spawn(move || {
        let _ = &go_completer;
        for i in 0..delay_completer { std::hint::black_box(i); }
        completer_ack.done(status);
        flag.store(true, Ordering::SeqCst);
    });
    let mut waker = CountingWaker::new();
    let mut polls = 0u64;
    let mut ready: Option<CommandStatus> = None;
    let witness = J::obj().with("engine", J::s("comp")).with("scenario", J::s("c12-miri")).with("variant", J::Int(variant as i128));
    loop {
        if change_waker && polls % 2 == 1 { waker = CountingWaker::new(); }
        let seen = waker.count();
        let done_before = done_returned.load(Ordering::SeqCst);
        polls += 1;
        let polled = rt::poll_once(ack.handle(), &waker);
        if polls == 1 { go.store(true, Ordering::Relaxed); for i in 0..delay_poller { std::hint::black_box(i); } }
        if std::env::var("CVH_DEBUG").is_ok() { eprintln!("variant {} poll {} -> {:?}", variant, polls, polled); }
        match polled {
            Poll::Ready(CommandStatus::Pending) => { fail(shard, &["C12"], "C12/ready-pending".into(), "a poll returned Ready(Pending)".into(), witness.clone()); break; }
            Poll::Ready(s) => {
                if s != status { fail(shard, &["C12"], "C12/ready-with-a-different-status".into(), format!("{} instead of {}", status_name(&s), status_name(&status)), witness.clone()); }
                if let Some(prev) = ready { if prev != s { fail(shard, &["C12"], "C12/status-changed-between-polls".into(), "two polls disagreed".into(), witness.clone()); } break; }
                ready = Some(s);
            }
            Poll::Pending => {
                if ready.is_some() { fail(shard, &["C12"], "C12/pending-after-ready".into(), "Pending after Ready".into(), witness.clone()); break; }
                if done_before { fail(shard, &["C12"], "C12/pending-after-done-returned".into(), "Pending although done() had returned before the poll".into(), witness.clone()); break; }
                if spinning { if polls > 60 { break; } continue; }
                // wait for the wake of this waker; if done() has returned without it, the wake-up was lost
                let mut spins = 0u64;
                while waker.count() == seen {
                    if done_returned.load(Ordering::SeqCst) {
                        if waker.count() == seen { fail(shard, &["C12"], "C12/last-pending-poller-never-woken".into(), "done() returned but the registered waker was not woken".into(), witness.clone()); }
                        break;
                    }
                    spins += 1;
                    if spins > 100_000 { break; }
                    thread::yield_now();
                }
                shard.counts.inc("wake_obligations_checked");
            }
        }
        if polls > 64 { break; }
    }
    let _ = completer.join();
    shard.counts.add("miri_polls", polls);
    shard.case(fnv_step(0xC12A, variant), true);
}

// ------------------------------------------------------------------------------------------------ dispatch

pub fn run(args: &Args) -> Shard {
    let focus = crate::props::static_focus(&args.str("focus", "C14"));
    let scenario = args.str("scenario", "c14");
    let seed = args.u64("seed", 1);
    let from = args.u64("from", 0);
    let stride = args.u64("stride", 1);
    let count = args.u64("count", 10);
    let budget = Duration::from_secs(args.u64("budget-s", 3600));
    let mut shard = Shard::new(&format!("comp-{}", scenario), focus);
    if scenario == "c12-miri" {
        for variant in from..from + count { c12_miri(&mut shard, variant); }
        return shard;
    }
    if scenario == "c14-bytes" { c14_bytes(&mut shard); return shard; }
    let _ = recorder();
    let _ = sched();
    match scenario.as_str() {
        "c14" => run_c14(args, &mut shard),
        "c06" => {
            let mut index = from;
            let mut done = 0;
            while done < count && shard.started.elapsed() < budget {
                guarded(&mut shard, &["C06", "C17"], &format!("admission decision {}", index), |shard| c06_case(shard, seed, index));
                index += stride; done += 1;
            }
        }
        "c12-directed" => { if from == 0 { c12_directed(&mut shard); } }
        "c12-stress" => c12_stress(&mut shard, seed, from, count),
        "c12-busy" => c12_busy(&mut shard, seed, from, count),
        other => { eprintln!("unknown scenario {}", other); std::process::exit(2); }
    }
    let mut visits = J::obj();
    for (site, n) in sched().visit_counts() { if n > 0 { visits.set(format!("{:?}", site), J::Int(n as i128)); } }
    shard.extra = J::obj().with("site_visits", visits).with("gate_holds", J::Int(sched().gate_holds.load(Ordering::SeqCst) as i128)).with("gate_timeouts", J::Int(sched().gate_timeouts.load(Ordering::SeqCst) as i128));
    shard
}

#[allow(dead_code)]
fn unused() { let _ = Counts::default(); }
