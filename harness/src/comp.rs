//! Component-level monitors; filled in below.
use crate::props::Shard;
use crate::Args;

pub fn run(args: &Args) -> Shard {
    Shard::new("comp", &args.str("focus", "C14"))
}
