//! Per-property workload selection and shard-level aggregation.
use std::collections::{BTreeMap, BTreeSet};
use std::time::{Duration, Instant};

use crate::rt;
use crate::seq::{self, Allow, Finding, SeqCfg, SeqOut};
use crate::sut::{HashMode, SutCfg, WeightMode};
use crate::util::{Counts, J};
use crate::Args;

/// Accumulates what one shard observed.
pub struct Shard {
    pub engine: String,
    pub focus: String,
    pub evaluations: u64,
    pub sigs: BTreeSet<u64>,
    pub sigs_nontrivial: BTreeSet<u64>,
    pub counts: Counts,
    pub samples: Vec<J>,
    pub findings: BTreeMap<String, (Finding, u64)>,
    pub critical: BTreeMap<String, u64>,
    pub started: Instant,
    pub extra: J,
}

impl Shard {
    pub fn new(engine: &str, focus: &str) -> Shard {
        Shard { engine: engine.into(), focus: focus.into(), evaluations: 0, sigs: BTreeSet::new(), sigs_nontrivial: BTreeSet::new(),
            counts: Counts::default(), samples: Vec::new(), findings: BTreeMap::new(), critical: BTreeMap::new(), started: Instant::now(), extra: J::obj() }
    }
    pub fn add_finding(&mut self, finding: Finding) {
        let entry = self.findings.entry(finding.signature.clone()).or_insert((finding, 0));
        entry.1 += 1;
    }
    pub fn case(&mut self, signature: u64, nontrivial: bool) {
        self.evaluations += 1;
        self.sigs.insert(signature);
        if nontrivial { self.sigs_nontrivial.insert(signature); }
    }
    pub fn sample(&mut self, sample: J) { if self.samples.len() < 3 { self.samples.push(sample); } }
    pub fn render(&self) -> String {
        let mut findings = J::arr();
        for (_, (finding, count)) in &self.findings {
            findings.push(finding.to_json().with("count", J::Int(*count as i128)));
        }
        let mut critical = J::obj();
        for (k, v) in &self.critical { critical.set(k.clone(), J::Int(*v as i128)); }
        J::obj()
            .with("engine", J::s(self.engine.clone()))
            .with("focus", J::s(self.focus.clone()))
            .with("evaluations", J::Int(self.evaluations as i128))
            .with("sigs", J::Arr(self.sigs.iter().map(|s| J::s(format!("{:016x}", s))).collect()))
            .with("sigs_nontrivial", J::Arr(self.sigs_nontrivial.iter().map(|s| J::s(format!("{:016x}", s))).collect()))
            .with("counts", self.counts.to_json())
            .with("critical", critical)
            .with("samples", J::Arr(self.samples.clone()))
            .with("findings", findings)
            .with("extra", self.extra.clone())
            .with("wall_s", J::Float(self.started.elapsed().as_secs_f64()))
            .render()
    }
}

pub fn static_focus(focus: &str) -> &'static str {
    match focus {
        "C01" => "C01", "C02" => "C02", "C03" => "C03", "C04" => "C04", "C05" => "C05", "C06" => "C06", "C07" => "C07", "C08" => "C08",
        "C09" => "C09", "C10" => "C10", "C11" => "C11", "C12" => "C12", "C13" => "C13", "C14" => "C14", "C15" => "C15", "C16" => "C16",
        "C17" => "C17", "C18" => "C18", _ => "C00",
    }
}

/// Draws the configuration of history `index` of a sequential run focused on `focus`.
pub fn seq_cfg(focus: &'static str, seed: u64, index: u64, clean_only: bool) -> SeqCfg {
    let mut rng = rt::rng_for(seed, index, 0xC0F);
    let n_keys = if focus == "C06" { rng.range(6, 14) } else { rng.range(3, 8) };
    let shards = *rng.pick(&[2usize, 2, 2, 2, 4, 4, 8, 16]);
    let shards = if rng.chance(1, 60) { 256 } else { shards };
    let pressure = match focus {
        "C17" | "C06" => true,
        "C01" | "C05" | "C10" | "C16" => rng.chance(1, 2),
        "C02" => rng.chance(2, 3),
        _ => false,
    };
    let weight_mode = if focus == "C06" || rng.chance(1, 2) { WeightMode::Custom } else { WeightMode::Default };
    // no-pressure budget: every key may demand up to cap (+24 for a TTL entry); C03 keeps the budget tight so that
    // weight that is wrongly kept charged soon turns into (forbidden) eviction or rejection
    let lenient_weights = focus == "C03";
    // now and then the weights are in the range of tens of gigabytes (beyond 32 bits), the cache correspondingly large
    let huge = !pressure && matches!(focus, "C01" | "C03" | "C05" | "C08" | "C16") && rng.chance(1, 6);
    let cap: i64 = if huge { (1i64 << 34) + rng.range(0, 1000) as i64 } else if lenient_weights { rng.range(64, 195) as i64 } else { 195 };
    let max_weight = if pressure {
        match weight_mode { WeightMode::Default => rng.range(100, 400) as i64, WeightMode::Custom => rng.range(30, 120) as i64 }
    } else if focus == "C03" && index % 3 == 0 { n_keys as i64 * (cap + 24) } else if lenient_weights { n_keys as i64 * (cap + 24) + 3 * 4 * 5 + rng.range(0, 30) as i64 } else { (n_keys as i64 + 1) * (cap + 25) };
    // C17: now and then an "unbounded" cache, where sums of weights come close to the integer range
    let max_weight = if focus == "C17" && rng.chance(1, 6) { *rng.pick(&[i64::MAX, i64::MAX / 2 + 1, 1i64 << 62]) } else { max_weight };
    // (C17: also a tick below one millisecond, which the builder accepts)
    let tick = if focus == "C09" && rng.chance(1, 3) { Duration::from_secs(3600) } else if focus == "C17" && rng.chance(1, 4) { Duration::from_micros(500) } else { Duration::from_millis(1) };
    let noise_threads = match focus {
        "C03" => *rng.pick(&[0usize, 1, 2, 3]),
        "C10" => *rng.pick(&[0usize, 0, 2]),
        _ => 0,
    };
    let saturate = focus == "C03" && index % 3 == 0;
    let noise_threads = if pressure || saturate { 0 } else { noise_threads };
    let hit_only = focus == "C16" && rng.chance(1, 3);
    // (C13's sequential histories exist to end with a dead worker and a shutdown: they always draw the recorded triggers)
    let known = !clean_only && (focus == "C13" || rng.chance(1, 4));
    let mut allow = Allow::default();
    if known {
        match focus {
            "C07" | "C03" => allow.put_on_expired = true,
            "C08" => { allow.upsert_on_expired = true; allow.upsert_on_soft_deleted = true; allow.remove_ttl_small_weight = rng.chance(1, 3); }
            "C09" => allow.upsert_on_expired = true,
            "C01" => { allow.overweight_update = true; allow.remove_ttl_small_weight = rng.chance(1, 3); }
            "C17" => { allow = Allow::all(); }
            // C13: a time-to-live that overflows kills the command worker (recorded under C17); the history then ends with shutdown()
            "C13" => { allow.ttl_overflow = true; }
            // a put over an expired, unswept entry: refused today (a recorded C07 finding, which ends the history); if it were admitted the
            // counters and the accounting would have to stay exact
            "C16" | "C05" => allow.put_on_expired = true,
            _ => {}
        }
    }
    // (a sketch with a single counter per row is legal: its rows used to be empty, repaired by e1fc0f4)
    // C01: removing the time-to-live of a key charged 24 or less (the documented assertion fires in the caller today; if it ever does not, the
    // total must not go negative) is drawn in a third of all histories
    if focus == "C01" && !clean_only && rng.chance(1, 3) { allow.remove_ttl_small_weight = true; }
    let counters_choices: &[u64] = if allow.counters_one { &[1, 2, 3, 7, 10, 100, 1 << 20] } else { &[1, 2, 3, 7, 10, 100, 1000] };
    let sut = SutCfg {
        counters: *rng.pick(counters_choices),
        capacity: *rng.pick(&[1usize, 4, 16, 64]),
        max_weight,
        shards,
        cmd_buf: *rng.pick(&[1usize, 2, 8, 64]),
        pool: if focus == "C06" { 1 } else { *rng.pick(&[1usize, 2, 4]) },
        buf: if focus == "C06" { *rng.pick(&[1usize, 1, 2]) } else { *rng.pick(&[1usize, 2, 8]) },
        tick,
        weight_mode,
        hash_mode: if rng.chance(1, 5) { HashMode::Constant } else { HashMode::Default },
        start_ns: rt::START_NS + rng.below(1_000) * 1_000_000_007,
    };
    SeqCfg {
        focus, seed, index,
        steps: rng.range(25, 60) as usize,
        n_keys, pressure, noise_threads, allow, sut,
        boundary_args: focus == "C17" || focus == "C13",
        hit_only,
        cap,
        lenient_weights,
        saturate,
    }
}

fn seq_nontrivial(focus: &str, out: &SeqOut) -> bool {
    let c = |k: &str| out.counts.get(k);
    let crit = |prefix: &str| out.critical.iter().any(|k| k.starts_with(prefix));
    match focus {
        "C03" => out.steps_done >= 5 && c("puts_accepted") > 0 && c("reads_returned_value") > 0,
        "C04" => crit("delete-of-") || crit("reads-inside"),
        "C07" => crit("put-on-"),
        "C08" => crit("upsert:"),
        "C09" => crit("read-after-deadline") || c("reads_before_deadline") > 0,
        "C10" => crit("key-swept") || crit("full-cycle"),
        "C16" => c("stats_checks") >= 5,
        "C17" => out.steps_done >= 5,
        "C06" => crit("end-to-end-decision:") && (c("evictions") > 0 || crit("admission-rejected") || crit("overweight-rejected")),
        "C15" => c("stats_checks") >= 5 && c("reads_returned_value") > 0,
        _ => c("structure_checks") > 0 && c("puts_accepted") > 0,
    }
}

fn run_seq(args: &Args) -> Shard {
    let focus = static_focus(&args.str("focus", "C03"));
    let seed = args.u64("seed", 1);
    let from = args.u64("from", 0);
    let count = args.u64("count", 100);
    let stride = args.u64("stride", 1);
    let budget = Duration::from_secs(args.u64("budget-s", 3600));
    let clean_only = args.u64("clean", 0) == 1;
    let mut shard = Shard::new("seq", focus);
    let mut index = from;
    let mut done = 0;
    while done < count && shard.started.elapsed() < budget && !rt::tainted() {
        let cfg = seq_cfg(focus, seed, index, clean_only);
        #[cfg(feature = "typed")]
        crate::typed::begin_case(seed, index);
        let out = seq::run_history(&cfg);
        let nontrivial = seq_nontrivial(focus, &out);
        shard.case(out.signature, nontrivial);
        shard.counts.merge(&out.counts);
        for key in &out.critical { *shard.critical.entry(key.clone()).or_insert(0) += 1; }
        if nontrivial { shard.sample(out.sample.clone()); }
        for finding in out.findings { shard.add_finding(finding); }
        #[cfg(feature = "typed")]
        for finding in crate::typed::end_case("seq", "history", focus, seed, index) { shard.add_finding(finding); }
        index += stride;
        done += 1;
    }
    #[cfg(feature = "typed")]
    crate::typed::ledger_counts(&mut shard.counts);
    shard
}

pub fn dispatch(engine: &str, args: &Args) -> Shard {
    match engine {
        "seq" => run_seq(args),
        "conc" => crate::conc::run(args),
        "comp" => crate::comp::run(args),
        other => {
            eprintln!("unknown engine {}", other);
            std::process::exit(2);
        }
    }
}
