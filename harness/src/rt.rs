//! Run-time support shared by all monitors: virtual clock, global stamps, the event recorder fed by the
//! `verif` sink, the schedule-point callback (random perturbation + directed gates), counting wakers and
//! hang classification.
use std::cell::Cell;
use std::collections::{HashMap, HashSet};
use std::future::Future;
use std::pin::Pin;
use std::sync::atomic::{AtomicBool, AtomicU64, AtomicUsize, Ordering};
use std::sync::{Arc, Mutex, OnceLock};
use std::task::{Context, Poll, Wake, Waker};
use std::thread::{self, Thread};
use std::time::{Duration, Instant, SystemTime, UNIX_EPOCH};

use tinylfu_cached::cache::clock::Clock;
use tinylfu_cached::cache::command::acknowledgement::CommandAcknowledgementHandle;
use tinylfu_cached::cache::command::CommandStatus;
use tinylfu_cached::cache::verif::{self, Event, Role, Site};

use crate::util::Rng;

// ------------------------------------------------------------------------------------------------ clock

pub const START_NS: u64 = 1_700_000_000 * 1_000_000_000;

/// Harness-controlled clock: nanoseconds since the epoch, moved only by the harness, never backwards.
#[derive(Clone)]
pub struct VClock(pub Arc<AtomicU64>);

impl VClock {
    pub fn new() -> Self { VClock(Arc::new(AtomicU64::new(START_NS))) }
    pub fn at(ns: u64) -> Self { VClock(Arc::new(AtomicU64::new(ns))) }
    pub fn ns(&self) -> u64 { self.0.load(Ordering::SeqCst) }
    pub fn advance(&self, delta_ns: u64) -> u64 { self.0.fetch_add(delta_ns, Ordering::SeqCst) + delta_ns }
}

impl Clock for VClock {
    fn now(&self) -> SystemTime {
        let value = self.ns();
        // an armed jump: the n-th reading taken by the armed thread still returns the old time, and the clock moves right after it — the way
        // a real clock moves between two consecutive readings inside one call (a stepped clock, an NTP correction, a second boundary)
        if JUMP_AFTER.load(Ordering::Relaxed) > 0 && JUMP_TID.load(Ordering::Relaxed) == tid() {
            if JUMP_AFTER.fetch_sub(1, Ordering::SeqCst) == 1 {
                self.0.fetch_add(JUMP_DELTA.load(Ordering::SeqCst), Ordering::SeqCst);
                JUMP_FIRED.fetch_add(1, Ordering::SeqCst);
            }
        }
        UNIX_EPOCH + Duration::from_nanos(value)
    }
}

static JUMP_TID: AtomicU64 = AtomicU64::new(0);
static JUMP_AFTER: AtomicU64 = AtomicU64::new(0);
static JUMP_DELTA: AtomicU64 = AtomicU64::new(0);
static JUMP_FIRED: AtomicU64 = AtomicU64::new(0);

/// Arms a clock jump of `delta_ns` right after the `after`-th reading that the CALLING thread takes from now on.
pub fn arm_clock_jump(after: u64, delta_ns: u64) {
    JUMP_AFTER.store(0, Ordering::SeqCst);
    JUMP_TID.store(tid(), Ordering::SeqCst);
    JUMP_DELTA.store(delta_ns, Ordering::SeqCst);
    JUMP_FIRED.store(0, Ordering::SeqCst);
    JUMP_AFTER.store(after, Ordering::SeqCst);
}

/// Disarms; returns true if the jump happened.
pub fn disarm_clock_jump() -> bool {
    JUMP_AFTER.store(0, Ordering::SeqCst);
    JUMP_FIRED.swap(0, Ordering::SeqCst) > 0
}

pub fn ns_of(time: SystemTime) -> u128 { time.duration_since(UNIX_EPOCH).map(|d| d.as_nanos()).unwrap_or(0) }

// ------------------------------------------------------------------------------------------------ stamps

static STAMP: AtomicU64 = AtomicU64::new(1);

/// One global logical clock for call/return stamps and hook events.
pub fn stamp() -> u64 { STAMP.fetch_add(1, Ordering::SeqCst) }

thread_local! {
    static TID: Cell<u64> = Cell::new(0);
    static LAST_SENT: Cell<u64> = Cell::new(0);
}
static NEXT_TID: AtomicU64 = AtomicU64::new(1);

pub fn tid() -> u64 {
    TID.with(|t| {
        if t.get() == 0 { t.set(NEXT_TID.fetch_add(1, Ordering::Relaxed)); }
        t.get()
    })
}

/// uid of the last command this thread queued (0 if none); reset with `clear_last_sent`.
pub fn last_sent() -> u64 { LAST_SENT.with(|c| c.get()) }
pub fn clear_last_sent() { LAST_SENT.with(|c| c.set(0)); }

// ------------------------------------------------------------------------------------------------ recorder

#[derive(Clone, Debug)]
pub struct Rec {
    pub stamp: u64,
    pub tid: u64,
    pub event: Event,
}

pub struct Recorder {
    pub keep: AtomicBool,
    pub events: Mutex<Vec<Rec>>,
    pub acked: Mutex<HashSet<u64>>,
    pub track_acked: AtomicBool,
    pub sent: AtomicU64,
    pub send_failed: AtomicU64,
    pub exec_begun: AtomicU64,
    pub completed: AtomicU64,
    pub sweeps: AtomicU64,
    pub swept_ids: AtomicU64,
    pub batches: AtomicU64,
    pub applied: AtomicU64,
    pub weight_events: AtomicU64,
    pub progress: AtomicU64,
    pub started: [AtomicU64; 3],
    pub exited: [AtomicU64; 3],
    pub panicked: [AtomicU64; 3],
    pub weight_violations: Mutex<Vec<(String, u64, i64, i64)>>,
    pub weight_min: std::sync::atomic::AtomicI64,
    pub weight_max_seen: std::sync::atomic::AtomicI64,
    pub check_weight_bounds: AtomicBool,
    pub weight_last: std::sync::atomic::AtomicI64,
    /// OS thread ids of sweeper (timer) threads: they wake on their own and are ignored by the hang test
    pub timer_tids: Mutex<HashSet<u64>>,
    /// kind of the command the worker began last (for attributing a worker death to the command that killed it)
    pub last_exec_kind: AtomicUsize,
}

pub fn last_command_kind() -> &'static str {
    match recorder().last_exec_kind.load(Ordering::SeqCst) { 1 => "Put", 2 => "PutWithTTL", 3 => "Delete", 4 => "UpdateWeight", 5 => "Shutdown", _ => "none" }
}

pub fn role_index(role: Role) -> usize {
    match role { Role::Worker => 0, Role::Consumer => 1, Role::Sweeper => 2 }
}

static RECORDER: OnceLock<Arc<Recorder>> = OnceLock::new();

pub fn recorder_installed() -> bool { RECORDER.get().is_some() }

pub fn recorder() -> &'static Arc<Recorder> {
    RECORDER.get_or_init(|| {
        let recorder = Arc::new(Recorder {
            keep: AtomicBool::new(true),
            events: Mutex::new(Vec::new()),
            acked: Mutex::new(HashSet::new()),
            track_acked: AtomicBool::new(true),
            sent: AtomicU64::new(0),
            send_failed: AtomicU64::new(0),
            exec_begun: AtomicU64::new(0),
            completed: AtomicU64::new(0),
            sweeps: AtomicU64::new(0),
            swept_ids: AtomicU64::new(0),
            batches: AtomicU64::new(0),
            applied: AtomicU64::new(0),
            weight_events: AtomicU64::new(0),
            progress: AtomicU64::new(0),
            started: [AtomicU64::new(0), AtomicU64::new(0), AtomicU64::new(0)],
            exited: [AtomicU64::new(0), AtomicU64::new(0), AtomicU64::new(0)],
            panicked: [AtomicU64::new(0), AtomicU64::new(0), AtomicU64::new(0)],
            weight_violations: Mutex::new(Vec::new()),
            weight_min: std::sync::atomic::AtomicI64::new(0),
            weight_max_seen: std::sync::atomic::AtomicI64::new(0),
            check_weight_bounds: AtomicBool::new(true),
            weight_last: std::sync::atomic::AtomicI64::new(0),
            timer_tids: Mutex::new(HashSet::new()),
            last_exec_kind: AtomicUsize::new(0),
        });
        let sink_recorder = recorder.clone();
        verif::set_event_sink(Some(Arc::new(move |event: Event| sink_recorder.on_event(event))));
        recorder
    })
}

impl Recorder {
    fn on_event(&self, event: Event) {
        if !matches!(event, Event::SweepCompleted { .. } | Event::ThreadStart { .. }) { self.progress.fetch_add(1, Ordering::Relaxed); }
        match &event {
            Event::Sent { uid, .. } => { self.sent.fetch_add(1, Ordering::SeqCst); LAST_SENT.with(|c| c.set(*uid)); }
            Event::SendFailed { .. } => { self.send_failed.fetch_add(1, Ordering::SeqCst); LAST_SENT.with(|c| c.set(0)); }
            Event::ExecBegin { kind, .. } => { self.last_exec_kind.store(*kind as usize + 1, Ordering::SeqCst); self.exec_begun.fetch_add(1, Ordering::SeqCst); }
            Event::Acked { uid } => {
                if self.track_acked.load(Ordering::Relaxed) { self.acked.lock().unwrap().insert(*uid); }
                self.completed.fetch_add(1, Ordering::SeqCst);
            }
            Event::SweepCompleted { evicted, .. } => {
                self.swept_ids.fetch_add(evicted.len() as u64, Ordering::SeqCst);
                self.sweeps.fetch_add(1, Ordering::SeqCst);
            }
            Event::BatchApplied { len } => {
                self.applied.fetch_add(*len as u64, Ordering::SeqCst);
                self.batches.fetch_add(1, Ordering::SeqCst);
            }
            Event::WeightChanged { site, key_id, new_total, max_weight } => {
                // online invariant (C01): evaluated at the instant the total changes, under the total's own lock
                self.weight_events.fetch_add(1, Ordering::Relaxed);
                self.weight_min.fetch_min(*new_total, Ordering::Relaxed);
                self.weight_max_seen.fetch_max(*new_total, Ordering::Relaxed);
                // a violation is a *crossing*: the previous total was inside the bounds, the new one is outside
                // (events are emitted under the total's write lock, so they arrive in the order of the changes)
                let previous = self.weight_last.swap(*new_total, Ordering::Relaxed);
                let was_inside = previous >= 0 && previous <= *max_weight;
                if self.check_weight_bounds.load(Ordering::Relaxed)
                    && !matches!(site, verif::WeightSite::Clear)
                    && was_inside
                    && (*new_total < 0 || *new_total > *max_weight) {
                    let mut violations = self.weight_violations.lock().unwrap();
                    if violations.len() < 64 { violations.push((format!("{:?}", site), *key_id, *new_total, *max_weight)); }
                }
            }
            Event::ThreadStart { role } => {
                if matches!(role, Role::Sweeper) { self.timer_tids.lock().unwrap().insert(os_tid()); }
                self.started[role_index(*role)].fetch_add(1, Ordering::SeqCst);
            }
            Event::ThreadExit { role, panicking } => {
                if *panicking { self.panicked[role_index(*role)].fetch_add(1, Ordering::SeqCst); }
                self.exited[role_index(*role)].fetch_add(1, Ordering::SeqCst);
            }
            _ => {}
        }
        if self.keep.load(Ordering::Relaxed) {
            let rec = Rec { stamp: stamp(), tid: tid(), event };
            self.events.lock().unwrap().push(rec);
        }
    }

    pub fn take_events(&self) -> Vec<Rec> {
        let mut events = std::mem::take(&mut *self.events.lock().unwrap());
        events.sort_by_key(|rec| rec.stamp);
        events
    }

    pub fn is_acked(&self, uid: u64) -> bool { self.acked.lock().unwrap().contains(&uid) }
    pub fn forget_acked(&self, uid: u64) { self.acked.lock().unwrap().remove(&uid); }
    pub fn clear_acked(&self) { self.acked.lock().unwrap().clear(); }
    pub fn take_weight_violations(&self) -> Vec<(String, u64, i64, i64)> { std::mem::take(&mut *self.weight_violations.lock().unwrap()) }
    pub fn exits(&self, role: Role) -> u64 { self.exited[role_index(role)].load(Ordering::SeqCst) }
    pub fn panics(&self, role: Role) -> u64 { self.panicked[role_index(role)].load(Ordering::SeqCst) }
    pub fn total_panics(&self) -> u64 { self.panicked.iter().map(|p| p.load(Ordering::SeqCst)).sum() }
    pub fn sweeps(&self) -> u64 { self.sweeps.load(Ordering::SeqCst) }
}

/// Marks of the per-role thread counters, so one cache's background threads can be told from the previous one's.
#[derive(Clone, Copy, Debug, Default)]
pub struct ThreadMarks {
    pub started: [u64; 3],
    pub exited: [u64; 3],
    pub panicked: [u64; 3],
}

pub fn thread_marks() -> ThreadMarks {
    let r = recorder();
    let mut marks = ThreadMarks::default();
    for i in 0..3 {
        marks.started[i] = r.started[i].load(Ordering::SeqCst);
        marks.exited[i] = r.exited[i].load(Ordering::SeqCst);
        marks.panicked[i] = r.panicked[i].load(Ordering::SeqCst);
    }
    marks
}

// ------------------------------------------------------------------------------------------------ scheduler

pub const N_SITES: usize = 40;

pub fn site_index(site: Site) -> usize { site as usize }

pub const ALL_SITES: [Site; 31] = [
    Site::PutAfterPresenceCheck, Site::UpsertAfterStoreUpdate, Site::UpsertBeforeSend, Site::DeleteAfterMark,
    Site::SendBefore, Site::SendAfter, Site::WorkerDequeued, Site::WorkerAfterStoreInsert, Site::WorkerDeleteAfterStore,
    Site::WorkerBeforeAck, Site::WorkerAfterAck, Site::AckDoneBetweenStores, Site::AckDoneBeforeWake, Site::AckPollAfterRegister,
    Site::AdmissionAfterSpaceCheck, Site::AdmissionAfterEvict, Site::WeightAddBetween, Site::WeightUpdateHoldingEntry,
    Site::WeightDeleteAfterRemove, Site::WeightDeleteHoldingTotal, Site::SweepBeforeRetain, Site::SweepBeforeEvict,
    Site::SweepDone, Site::PoolBeforeAdd, Site::PoolBeforeAccept, Site::ConsumerBeforeApply, Site::ConsumerApplied,
    Site::ShutdownAfterFlag, Site::ShutdownAfterSend, Site::ShutdownAfterPolicy, Site::ShutdownBeforeClear,
];

/// Sites at which the calling code holds a lock: only bounded delays are injected there, never gates.
pub fn holds_lock(site: Site) -> bool {
    matches!(site, Site::AckPollAfterRegister | Site::WeightUpdateHoldingEntry | Site::WeightDeleteHoldingTotal
        | Site::SweepBeforeEvict | Site::PoolBeforeAccept)
}

const GATE_OPEN: usize = 0;
const GATE_ARMED: usize = 1;
const GATE_HOLDING: usize = 2;

pub struct Sched {
    pub visits: Vec<AtomicU64>,
    gates: Vec<AtomicUsize>,
    /// only threads whose harness tid differs from this value are caught by an armed gate (0 = anyone)
    gate_skip_tid: Vec<AtomicU64>,
    pub gate_timeouts: AtomicU64,
    pub gate_holds: AtomicU64,
    /// per-mille probabilities of (yield, spin, sleep) at a visited site; 0 = off
    pub p_yield: AtomicU64,
    pub p_spin: AtomicU64,
    pub p_sleep: AtomicU64,
    pub seed: AtomicU64,
    pub max_gate_hold_ms: AtomicU64,
    pub trace_on: AtomicBool,
    pub trace: Mutex<Vec<(u64, u64, Site)>>,
    /// sites excluded from random perturbation (bit per site index)
    pub quiet_mask: AtomicU64,
    pub injected: AtomicU64,
    /// a long, bounded delay forced at one site (index + 1; 0 = none) for the next `forced_left` visits
    pub forced_site: AtomicUsize,
    pub forced_us: AtomicU64,
    pub forced_left: AtomicU64,
    pub forced_hits: AtomicU64,
}

thread_local! {
    static TRNG: Cell<u64> = Cell::new(0);
}

static SCHED: OnceLock<Arc<Sched>> = OnceLock::new();

pub fn sched() -> &'static Arc<Sched> {
    SCHED.get_or_init(|| {
        let sched = Arc::new(Sched {
            visits: (0..N_SITES).map(|_| AtomicU64::new(0)).collect(),
            gates: (0..N_SITES).map(|_| AtomicUsize::new(GATE_OPEN)).collect(),
            gate_skip_tid: (0..N_SITES).map(|_| AtomicU64::new(0)).collect(),
            gate_timeouts: AtomicU64::new(0),
            gate_holds: AtomicU64::new(0),
            p_yield: AtomicU64::new(0),
            p_spin: AtomicU64::new(0),
            p_sleep: AtomicU64::new(0),
            seed: AtomicU64::new(1),
            max_gate_hold_ms: AtomicU64::new(3000),
            trace_on: AtomicBool::new(false),
            trace: Mutex::new(Vec::new()),
            quiet_mask: AtomicU64::new(0),
            injected: AtomicU64::new(0),
            forced_site: AtomicUsize::new(0),
            forced_us: AtomicU64::new(0),
            forced_left: AtomicU64::new(0),
            forced_hits: AtomicU64::new(0),
        });
        let callback_sched = sched.clone();
        verif::set_point_callback(Some(Arc::new(move |site: Site| callback_sched.on_point(site))));
        sched
    })
}

impl Sched {
    fn on_point(&self, site: Site) {
        let index = site_index(site);
        self.visits[index].fetch_add(1, Ordering::Relaxed);
        if self.trace_on.load(Ordering::Relaxed) {
            let entry = (stamp(), tid(), site);
            let mut trace = self.trace.lock().unwrap();
            if trace.len() < 200_000 { trace.push(entry); }
        }
        // directed gate
        if self.gates[index].load(Ordering::SeqCst) == GATE_ARMED {
            let skip = self.gate_skip_tid[index].load(Ordering::SeqCst);
            if (skip == 0 || skip != tid())
                && self.gates[index].compare_exchange(GATE_ARMED, GATE_HOLDING, Ordering::SeqCst, Ordering::SeqCst).is_ok() {
                self.gate_holds.fetch_add(1, Ordering::SeqCst);
                let started = Instant::now();
                let max_hold = Duration::from_millis(self.max_gate_hold_ms.load(Ordering::Relaxed));
                while self.gates[index].load(Ordering::SeqCst) == GATE_HOLDING {
                    if started.elapsed() > max_hold {
                        // partner never released us: let go (counted; the scenario is then "window not entered")
                        if self.gates[index].compare_exchange(GATE_HOLDING, GATE_OPEN, Ordering::SeqCst, Ordering::SeqCst).is_ok() {
                            self.gate_timeouts.fetch_add(1, Ordering::SeqCst);
                        }
                        break;
                    }
                    thread::sleep(Duration::from_micros(50));
                }
                return;
            }
        }
        // forced delay: stretches one critical section / gap so that another thread's racing step lands inside it
        if self.forced_site.load(Ordering::Relaxed) == index + 1 {
            let left = self.forced_left.load(Ordering::Relaxed);
            if left > 0 && self.forced_left.compare_exchange(left, left - 1, Ordering::SeqCst, Ordering::SeqCst).is_ok() {
                self.forced_hits.fetch_add(1, Ordering::SeqCst);
                thread::sleep(Duration::from_micros(self.forced_us.load(Ordering::Relaxed)));
                return;
            }
        }
        // random perturbation
        let p_yield = self.p_yield.load(Ordering::Relaxed);
        let p_spin = self.p_spin.load(Ordering::Relaxed);
        let p_sleep = self.p_sleep.load(Ordering::Relaxed);
        if p_yield + p_spin + p_sleep == 0 { return; }
        if self.quiet_mask.load(Ordering::Relaxed) & (1u64 << index) != 0 { return; }
        let draw = TRNG.with(|state| {
            let mut value = state.get();
            if value == 0 { value = self.seed.load(Ordering::Relaxed) ^ tid().wrapping_mul(0x9E37_79B9_7F4A_7C15) | 1; }
            value ^= value << 13;
            value ^= value >> 7;
            value ^= value << 17;
            state.set(value);
            value
        });
        let roll = draw % 1000;
        if roll < p_yield {
            self.injected.fetch_add(1, Ordering::Relaxed);
            thread::yield_now();
        } else if roll < p_yield + p_spin {
            self.injected.fetch_add(1, Ordering::Relaxed);
            let spin_us = 1 + (draw >> 20) % 200;
            let started = Instant::now();
            while started.elapsed() < Duration::from_micros(spin_us) { std::hint::spin_loop(); }
        } else if roll < p_yield + p_spin + p_sleep {
            self.injected.fetch_add(1, Ordering::Relaxed);
            let cap_us = if holds_lock(site) { 300 } else { 3000 };
            let sleep_us = 100 + (draw >> 20) % cap_us;
            thread::sleep(Duration::from_micros(sleep_us));
        }
    }

    pub fn set_random(&self, seed: u64, p_yield: u64, p_spin: u64, p_sleep: u64) {
        self.seed.store(seed | 1, Ordering::Relaxed);
        self.p_yield.store(p_yield, Ordering::Relaxed);
        self.p_spin.store(p_spin, Ordering::Relaxed);
        self.p_sleep.store(p_sleep, Ordering::Relaxed);
    }

    pub fn quiet(&self) { self.set_random(1, 0, 0, 0); self.clear_forced(); }

    /// Every one of the next `times` visits of `site` sleeps `micros` (bounded, so it is allowed at lock-holding sites too).
    pub fn force_delay(&self, site: Site, micros: u64, times: u64) {
        self.forced_us.store(micros, Ordering::SeqCst);
        self.forced_left.store(times, Ordering::SeqCst);
        self.forced_site.store(site_index(site) + 1, Ordering::SeqCst);
    }

    pub fn clear_forced(&self) { self.forced_site.store(0, Ordering::SeqCst); self.forced_left.store(0, Ordering::SeqCst); }

    /// Arms a gate: the next thread (other than `skip_tid`, if non-zero) reaching `site` is held until `release`.
    pub fn arm(&self, site: Site, skip_tid: u64) {
        assert!(!holds_lock(site), "gates are never placed at lock-holding sites");
        self.gate_skip_tid[site_index(site)].store(skip_tid, Ordering::SeqCst);
        self.gates[site_index(site)].store(GATE_ARMED, Ordering::SeqCst);
    }

    pub fn is_holding(&self, site: Site) -> bool { self.gates[site_index(site)].load(Ordering::SeqCst) == GATE_HOLDING }

    /// Waits (bounded) until a thread is held at `site`.
    pub fn wait_holding(&self, site: Site, max: Duration) -> bool {
        let started = Instant::now();
        while !self.is_holding(site) {
            if started.elapsed() > max { return false; }
            thread::sleep(Duration::from_micros(50));
        }
        true
    }

    pub fn release(&self, site: Site) { self.gates[site_index(site)].store(GATE_OPEN, Ordering::SeqCst); }

    pub fn release_all(&self) { for gate in &self.gates { gate.store(GATE_OPEN, Ordering::SeqCst); } }

    pub fn visit_counts(&self) -> Vec<(Site, u64)> {
        ALL_SITES.iter().map(|site| (*site, self.visits[site_index(*site)].load(Ordering::Relaxed))).collect()
    }

    pub fn start_trace(&self) { self.trace.lock().unwrap().clear(); self.trace_on.store(true, Ordering::SeqCst); }

    pub fn stop_trace(&self) -> Vec<(u64, u64, Site)> {
        self.trace_on.store(false, Ordering::SeqCst);
        let mut trace = std::mem::take(&mut *self.trace.lock().unwrap());
        trace.sort_by_key(|entry| entry.0);
        trace
    }
}

/// Signature of an interleaving: hash of the (thread, site) sequence with threads renamed by first appearance.
pub fn trace_signature(trace: &[(u64, u64, Site)]) -> u64 {
    let mut names: HashMap<u64, u64> = HashMap::new();
    let mut hash = 0xcbf2_9ce4_8422_2325u64;
    for (_, thread_id, site) in trace {
        let next = names.len() as u64;
        let name = *names.entry(*thread_id).or_insert(next);
        hash = crate::util::fnv_step(hash, name << 8 | site_index(*site) as u64);
    }
    hash
}

// ------------------------------------------------------------------------------------------------ wakers / waiting

pub struct CountingWaker {
    pub wakes: AtomicU64,
    thread: Thread,
}

impl CountingWaker {
    pub fn new() -> Arc<CountingWaker> { Arc::new(CountingWaker { wakes: AtomicU64::new(0), thread: thread::current() }) }
    pub fn count(&self) -> u64 { self.wakes.load(Ordering::SeqCst) }
}

impl Wake for CountingWaker {
    fn wake(self: Arc<Self>) { self.wake_by_ref(); }
    fn wake_by_ref(self: &Arc<Self>) {
        self.wakes.fetch_add(1, Ordering::SeqCst);
        self.thread.unpark();
    }
}

pub fn poll_once(handle: &CommandAcknowledgementHandle, waker: &Arc<CountingWaker>) -> Poll<CommandStatus> {
    let std_waker: Waker = waker.clone().into();
    let mut context = Context::from_waker(&std_waker);
    let mut future = handle;
    Pin::new(&mut future).poll(&mut context)
}

#[derive(Clone, Debug, PartialEq)]
pub enum Waited {
    Ready(CommandStatus),
    /// the placeholder status was handed out as a result
    ReadyPending,
    /// the command was acknowledged (done() returned) but the registered waker was never woken
    LostWakeup,
    /// the thread that must complete the acknowledgement is gone
    WorkerDead,
    /// every thread is blocked and nothing progresses
    Deadlock(String),
    /// wall-clock watchdog fired without a logical hang condition
    Inconclusive(String),
}

pub static WATCHDOG_SECS: AtomicU64 = AtomicU64::new(120);

/// Set when a wait was classified as a deadlock or a dead worker: every later wait of the same case returns at once,
/// so that one hang does not cost a verdict per pending operation. Cleared when the next case starts.
pub static ABORTED: AtomicBool = AtomicBool::new(false);
pub fn aborted() -> bool { ABORTED.load(Ordering::SeqCst) }
/// Set once a cache (with its threads) had to be left behind: its background threads may exit at any later time, which would be
/// attributed to the cache of a later case, so the shard stops after the case that set it.
static TAINTED: AtomicBool = AtomicBool::new(false);
pub fn taint() { TAINTED.store(true, Ordering::SeqCst); }
pub fn tainted() -> bool { TAINTED.load(Ordering::SeqCst) }

/// Joins helper threads that call the API of the cache under test. They are never joined blindly (on a wedged cache they may never
/// return): without a classified hang they are awaited with the logical hang test (no wall-clock verdict — a loaded machine only makes
/// this slower); after one they get a short grace period and are left behind.
pub fn join_helpers<T>(what: &str, handles: Vec<thread::JoinHandle<T>>) -> Option<Vec<T>> {
    let done = if aborted() { poll_until(Duration::from_millis(500), || handles.iter().all(|h| h.is_finished())) }
               else { wait_until(what, || handles.iter().all(|h| h.is_finished())).is_ok() };
    if done { Some(handles.into_iter().filter_map(|h| h.join().ok()).collect()) } else { taint(); std::mem::forget(handles); None }
}
pub fn clear_abort() { ABORTED.store(false, Ordering::SeqCst); }
fn abort_case() { ABORTED.store(true, Ordering::SeqCst); }

/// Awaits an acknowledgement the way a well-behaved executor would: poll, park until woken, poll again.
/// It never re-polls without a wake (that would mask a lost wake-up); a stuck wait is classified logically.
/// Number of harness threads currently inside `await_ack` (so that a hang can be attributed: clients waiting for
/// acknowledgements that never resolve vs. clients stuck inside an API call).
pub static AWAITING: std::sync::atomic::AtomicI64 = std::sync::atomic::AtomicI64::new(0);
struct AwaitingGuard;
impl Drop for AwaitingGuard { fn drop(&mut self) { AWAITING.fetch_sub(1, Ordering::SeqCst); } }
pub fn awaiting_now() -> i64 { AWAITING.load(Ordering::SeqCst) }

pub fn await_ack(handle: &CommandAcknowledgementHandle, uid: u64, worker_marks: &ThreadMarks) -> Waited {
    AWAITING.fetch_add(1, Ordering::SeqCst);
    let _awaiting = AwaitingGuard;
    let waker = CountingWaker::new();
    let mut seen_wakes = 0u64;
    let started = Instant::now();
    loop {
        if aborted() {
            // the case was already decided (a hang was classified): look once, do not wait
            return match poll_once(handle, &waker) { Poll::Ready(CommandStatus::Pending) => Waited::ReadyPending, Poll::Ready(status) => Waited::Ready(status), Poll::Pending => Waited::Inconclusive("case aborted after a classified hang".into()) };
        }
        match poll_once(handle, &waker) {
            Poll::Ready(CommandStatus::Pending) => return Waited::ReadyPending,
            Poll::Ready(status) => return Waited::Ready(status),
            Poll::Pending => {}
        }
        let mut idle_since = Instant::now();
        let mut last_progress = recorder().progress.load(Ordering::Relaxed);
        loop {
            let wakes = waker.count();
            if wakes != seen_wakes { seen_wakes = wakes; break; }
            thread::park_timeout(Duration::from_millis(5));
            if waker.count() != seen_wakes { continue; }
            let r = recorder();
            if uid != 0 && r.is_acked(uid) {
                // done() has returned for this command; wake_by_ref happens inside done(), so a wake must be visible
                thread::sleep(Duration::from_millis(2));
                if waker.count() == seen_wakes { return Waited::LostWakeup; }
                continue;
            }
            let worker = role_index(Role::Worker);
            if r.exited[worker].load(Ordering::SeqCst) > worker_marks.exited[worker] && !(uid != 0 && r.is_acked(uid)) {
                // the worker of this cache is gone and did not acknowledge
                thread::sleep(Duration::from_millis(20));
                if uid != 0 && r.is_acked(uid) { continue; }
                if waker.count() != seen_wakes { continue; }
                abort_case();
                return Waited::WorkerDead;
            }
            let progress = r.progress.load(Ordering::Relaxed);
            if progress != last_progress { last_progress = progress; idle_since = Instant::now(); }
            if idle_since.elapsed() > Duration::from_secs(3) {
                if let Some(description) = all_threads_blocked() { abort_case(); return Waited::Deadlock(description); }
                idle_since = Instant::now();
            }
            if aborted() { return Waited::Inconclusive("case aborted after a classified hang".into()); }
            if started.elapsed() > Duration::from_secs(WATCHDOG_SECS.load(Ordering::Relaxed)) {
                return Waited::Inconclusive("wall-clock watchdog while awaiting an acknowledgement".to_string());
            }
        }
    }
}

/// Spin-polls with a no-op style waker until ready (used where wake-ups are not the subject).
pub fn busy_await(handle: &CommandAcknowledgementHandle, max: Duration) -> Option<CommandStatus> {
    let waker = CountingWaker::new();
    let started = Instant::now();
    loop {
        if let Poll::Ready(status) = poll_once(handle, &waker) { return Some(status); }
        if started.elapsed() > max { return None; }
        thread::yield_now();
    }
}

/// Logical hang test: every thread of this process except the caller is blocked in a futex wait
/// (syscall 202) or a sleep belonging to a background ticker. Returns a description if so.
pub fn all_threads_blocked() -> Option<String> {
    let me = os_tid();
    let mut timers = recorder().timer_tids.lock().unwrap().clone();
    timers.extend(HELPERS.lock().unwrap().iter().copied());
    let mut summary = Vec::new();
    let entries = std::fs::read_dir("/proc/self/task").ok()?;
    for entry in entries.flatten() {
        let name = entry.file_name().to_string_lossy().to_string();
        let task: u64 = name.parse().ok()?;
        if task == me || timers.contains(&task) { continue; }
        let syscall = std::fs::read_to_string(format!("/proc/self/task/{}/syscall", name)).unwrap_or_default();
        let number = syscall.split_whitespace().next().unwrap_or("").to_string();
        let comm = std::fs::read_to_string(format!("/proc/self/task/{}/comm", name)).unwrap_or_default();
        // 202 = futex; anything else ("running", nanosleep of an injected delay, ...) means not logically blocked
        if number != "202" { return None; }
        summary.push(format!("{}:{}:futex", name, comm.trim()));
    }
    let stacks = capture_stacks();
    Some(format!("{}{}", summary.join(","), stacks))
}

/// Once a hang has been classified the process is examined from outside (gdb attaches, prints the innermost frames of every thread and
/// detaches): where each blocked thread sits — a map shard lock, the total-weight lock, a channel — goes into the finding. Best effort: no
/// gdb, no permission or a time-out only means that the description stays without stacks. At most three captures per process.
fn capture_stacks() -> String {
    // opt-in (CVH_STACKS=1): attaching a debugger to a wedged process costs tens of seconds and, if the debugger itself is killed, can
    // leave the process stopped; the checks do not need it, it is a diagnosis aid for investigating a classified hang by hand
    if std::env::var("CVH_STACKS").map(|v| v != "1").unwrap_or(true) { return String::new(); }
    static CAPTURES: AtomicU64 = AtomicU64::new(0);
    if CAPTURES.fetch_add(1, Ordering::SeqCst) >= 1 { return String::new(); }
    let pid = std::process::id();
    let child = std::process::Command::new("timeout").args(["25", "gdb", "-p", &pid.to_string(), "-batch", "-ex", "thread apply all bt 14"])
        .stdin(std::process::Stdio::null()).stderr(std::process::Stdio::null()).output();
    let text = match child { Ok(out) => String::from_utf8_lossy(&out.stdout).to_string(), Err(_) => return String::new() };
    // keep, per thread, the frames that say where it waits: crate, map, lock and channel frames
    let mut digest: Vec<String> = Vec::new();
    let mut current: Vec<String> = Vec::new();
    for line in text.lines() {
        if line.starts_with("Thread ") {
            if !current.is_empty() { digest.push(current.join(" < ")); }
            current = vec![line.split_whitespace().take(2).collect::<Vec<_>>().join(" ")];
        } else if line.starts_with('#') {
            let interesting = ["tinylfu_cached::", "dashmap::", "parking_lot", "crossbeam_channel::", "cvh::"].iter().any(|k| line.contains(k));
            if interesting && current.len() < 5 {
                let frame = line.split(" in ").nth(1).unwrap_or(line).split(" (").next().unwrap_or("").split('<').next().unwrap_or("");
                if !frame.is_empty() && current.last().map(|l| l != frame).unwrap_or(true) { current.push(frame.to_string()); }
            }
        }
    }
    if !current.is_empty() { digest.push(current.join(" < ")); }
    if digest.is_empty() { return String::new(); }
    let dir = std::env::var("CVH_HANG_DIR").unwrap_or_else(|_| "/tmp".into());
    let path = format!("{}/cvh-hang-{}-{}.txt", dir, pid, CAPTURES.load(Ordering::SeqCst));
    let _ = std::fs::write(&path, &text);
    format!(" | stacks (full text: {}): {}", path, digest.join(" || "))
}

static HELPERS: Mutex<Vec<u64>> = Mutex::new(Vec::new());

/// Harness helper threads (clock advancers, observers, samplers) call this once: they sleep or spin on their own
/// and are not part of the system under test, so the logical hang test ignores them.
pub fn register_helper_thread() { HELPERS.lock().unwrap().push(os_tid()); }

pub fn os_tid() -> u64 {
    // /proc/thread-self resolves to /proc/<pid>/task/<tid>
    std::fs::read_link("/proc/thread-self").ok()
        .and_then(|path| path.file_name().map(|n| n.to_string_lossy().to_string()))
        .and_then(|name| name.parse().ok())
        .unwrap_or(0)
}

/// Waits until `condition` holds; classifies a stuck wait like `await_ack` does.
pub fn wait_until<F: Fn() -> bool>(what: &str, condition: F) -> Result<(), Waited> {
    // after a classified hang nothing of the case is waited for any more, and nothing that follows a successful wait (API calls from the
    // monitor's own thread, which would block on the very locks that are stuck) may run
    if aborted() { return Err(Waited::Inconclusive("case aborted after a classified hang".into())); }
    let started = Instant::now();
    let mut idle_since = Instant::now();
    let mut last_progress = recorder().progress.load(Ordering::Relaxed);
    let mut spins = 0u32;
    while !condition() {
        spins += 1;
        if spins < 50 { thread::yield_now(); } else { thread::sleep(Duration::from_micros(200)); }
        let progress = recorder().progress.load(Ordering::Relaxed);
        if progress != last_progress { last_progress = progress; idle_since = Instant::now(); }
        if idle_since.elapsed() > Duration::from_secs(5) {
            if let Some(description) = all_threads_blocked() { abort_case(); return Err(Waited::Deadlock(format!("{}: {}", what, description))); }
            idle_since = Instant::now();
        }
        if started.elapsed() > Duration::from_secs(WATCHDOG_SECS.load(Ordering::Relaxed)) {
            return Err(Waited::Inconclusive(format!("wall-clock watchdog while waiting for {}", what)));
        }
    }
    Ok(())
}

/// A group of harness threads whose completion is awaited with the logical hang test instead of a blind join: a thread stuck
/// inside an API call of the cache (a full queue behind a dead or wedged worker, a shutdown() that never returns) is a
/// finding, not a reason for the monitor to hang as well. Threads that never finish are leaked.
pub struct Crew<T> {
    handles: Vec<thread::JoinHandle<T>>,
    finished: Arc<AtomicU64>,
}

struct FinishGuard(Arc<AtomicU64>);
impl Drop for FinishGuard { fn drop(&mut self) { self.0.fetch_add(1, Ordering::SeqCst); } }

impl<T: Send + 'static> Crew<T> {
    pub fn new() -> Self { Crew { handles: Vec::new(), finished: Arc::new(AtomicU64::new(0)) } }
    pub fn spawn<F: FnOnce() -> T + Send + 'static>(&mut self, work: F) {
        let finished = self.finished.clone();
        self.handles.push(thread::spawn(move || { let _guard = FinishGuard(finished); work() }));
    }
    pub fn len(&self) -> usize { self.handles.len() }
    pub fn finished(&self) -> u64 { self.finished.load(Ordering::SeqCst) }
    /// Ok(results of the threads that ended normally) once all have ended; Err(classification) if they cannot all end.
    pub fn join(self, what: &str) -> Result<Vec<T>, Waited> {
        let n = self.handles.len() as u64;
        let finished = self.finished.clone();
        wait_until(what, move || finished.load(Ordering::SeqCst) >= n)?;
        Ok(self.handles.into_iter().filter_map(|h| h.join().ok()).collect())
    }
}

/// Bounded polling for a condition a directed scenario hopes to reach (a window); not reaching it is no verdict.
pub fn poll_until<F: Fn() -> bool>(max: Duration, condition: F) -> bool {
    let started = Instant::now();
    while !condition() {
        if started.elapsed() > max { return false; }
        thread::sleep(Duration::from_micros(50));
    }
    true
}

pub fn rng_for(seed: u64, a: u64, b: u64) -> Rng { Rng::new(crate::util::mix(crate::util::mix(seed, a), b)) }

// ------------------------------------------------------------------------------------------------ panics

#[derive(Clone, Debug)]
pub struct PanicRecord {
    pub os_tid: u64,
    pub file: String,
    pub line: u32,
    pub message: String,
}

static PANICS: Mutex<Vec<PanicRecord>> = Mutex::new(Vec::new());

pub fn record_panic(file: String, line: u32, message: String) {
    let record = PanicRecord { os_tid: os_tid(), file, line, message };
    if let Ok(mut panics) = PANICS.lock() { if panics.len() < 10_000 { panics.push(record); } }
}

pub fn panic_count() -> usize { PANICS.lock().map(|p| p.len()).unwrap_or(0) }

pub fn panics_since(mark: usize) -> Vec<PanicRecord> { PANICS.lock().map(|p| p[mark.min(p.len())..].to_vec()).unwrap_or_default() }

/// "file.rs/class" of a panic: the short file name (line numbers shift) and a message class.
pub fn panic_site(record: &PanicRecord) -> String {
    let file = record.file.rsplit('/').next().unwrap_or("?").to_string();
    format!("{}/{}", file, classify_panic(&record.message))
}

pub fn classify_panic(message: &str) -> &'static str {
    if message.contains("overflow when adding duration") { "time-overflow" }
    else if message.contains("attempt to add with overflow") || message.contains("attempt to subtract with overflow") || message.contains("attempt to multiply") { "arithmetic-overflow" }
    else if message.contains("must be greater than zero") { "weight-gt-zero-assert" }
    else if message.contains("index out of bounds") { "index-out-of-bounds" }
    else if message.contains("remainder with a divisor of zero") || message.contains("divide by zero") { "division-by-zero" }
    else if message.contains("value must be specified") { "value-missing-assert" }
    else if message.contains("called `Option::unwrap()`") || message.contains("called `Result::unwrap()`") { "unwrap" }
    else if message.contains("assertion") { "assertion" }
    else { "other" }
}
